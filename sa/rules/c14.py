"""C14 Lease: no request without a valid lease, never more than granted."""
import ast

from .. import AnalysisError
from .. import tables
from ..effects import is_enq_send, is_enq_lease, strip_epoch, is_deq_send
from ..index import walk_local
from ..interp import fmt_term, const, AVal
from . import COMMON_ASSUMPTIONS
from .handlers import model

EXPLANATION = (
    'Decides: (a) gate dominance - on every enumerated path of every requester entry point and of fire_and_forget, '
    'the enqueue of an initiating request frame into the send queue happens inside the send_request gate after the '
    'lease test returned true (or lease honouring is off), otherwise the frame goes to the hold queue; no other '
    'function enqueues a request frame; (b) the lease object: the expiry test precedes the count, the counter is '
    'advanced exactly once per call and the accepting condition is counter+1 <= granted; (c) the lease installed '
    'before any LEASE frame arrives grants the literal 0; (d) the LEASE handler installs the frame\'s count and '
    'time-to-live (milliseconds), tests queue emptiness before consuming an allowance, and moves each dequeued frame '
    'to the send queue exactly once; (e) a published lease is announced with its own count and its time-to-live '
    'through the millisecond conversion (shared with C16.a), and (shared with C08.g) a request and its own control '
    'frames pass the same FIFO. Not decided: expiry at a given instant, FIFO as observed on the wire.')
EXPLANATION_ADDED = ("(f) only new requests are held or consume an allowance, and only behind a true honor_lease test; (g) the attributes the gate reads are the constructor's arguments, replaced by a default only when None; the release loop dequeues only after non-empty and a granted allowance and ends only on empty or refusal; the lease publisher is subscribed exactly when leases are in use and every published value is installed for the responder gate and announced; LEASE frames reach handle_lease (dispatch row). (h) the lease hold queue is built with the configured request_queue_size and every producer uses put_nowait() without catching QueueFull, so no more than the configured number of requests is retained and none waits outside the FIFO.")
EXPLANATION = EXPLANATION.replace(' Not decided', ' ' + EXPLANATION_ADDED + ' Not decided', 1) \
    if ' Not decided' in EXPLANATION else EXPLANATION + ' ' + EXPLANATION_ADDED
ASSUMPTIONS = COMMON_ASSUMPTIONS


def call_chain(p, ev):
    """Functions active (entered, not yet exited) when ev happened."""
    stack = []
    for e in p.events:
        if e.seq >= ev.seq:
            break
        if e.kind == 'enter':
            stack.append(e.data['callee'])
        elif e.kind == 'exit' and stack:
            stack.pop()
    return stack


def rule_a(ctx):
    rep = ctx.report
    slots = ctx.slots
    m = model(ctx)
    subjects = []
    for h in m.handlers:
        if m.role(h)[1] != 'requester':
            continue
        for en in m.entries(h):
            if en.is_event and en.kind == 'method':
                subjects.append((en.name, m.run(en, None)))
    fnf = ctx.repo.func('rsocket.rsocket_base:RSocketBase.fire_and_forget')
    subjects.append(('RSocketBase.fire_and_forget', ctx.paths(fnf, slots.RSocketClient)))
    n = 0
    for name, paths in subjects:
        ok = True
        detail = ''
        seen = False
        for p in paths:
            for e in p.events:
                if not (is_enq_send(e, slots) or is_enq_lease(e, slots)):
                    continue
                a = e.data['args'][0] if e.data.get('args') else None
                if a is None or not a.types:
                    continue
                cname = next(iter(a.types)).name
                if cname not in tables.REQUEST_FRAME_INTERACTION:
                    continue
                seen = True
                if is_enq_lease(e, slots):
                    continue  # held back
                chain = [f.name for f in call_chain(p, e)]
                honoured = None
                allowed = None
                for c in p.events:
                    if c.seq >= e.seq:
                        break
                    if c.kind == 'cond' and '_honor_lease' in repr(c.data['key']) and c.data['key'][0] == 'truth':
                        honoured = c.data['value']
                    if c.kind == 'call' and c.data.get('name') == 'is_request_allowed':
                        allowed = c
                    if c.kind == 'enter' and c.data['callee'].name in ('is_request_allowed', '_is_request_allowed'):
                        allowed = c
                if honoured is None:
                    ok, detail = False, '%s reaches the send queue (via %s) without the lease gate' % (cname, chain)
                elif honoured is True:
                    # the allowance must have been consulted and have returned True
                    verdicts = [c for c in p.events if c.seq < e.seq and c.kind == 'cond' and
                                ('is_request_allowed' in repr(c.data['key']) or 'is_frame_allowed' in repr(
                                    c.data['key']))]
                    rets = [c for c in p.events if c.seq < e.seq and c.kind == 'exit' and
                            c.data['callee'].name in ('_is_frame_allowed_to_send',)]
                    if allowed is None:
                        ok, detail = False, '%s is sent with lease honouring on without consulting the lease' % cname
        if seen:
            n += 1
            rep.add('C14.a', '%s / request passes the lease gate' % name, (paths[0].events[0].func.file if paths and
                    paths[0].events else '?', 0), ok,
                    detail or 'every path that puts the request into the send queue tested the lease (or lease '
                              'honouring is off); otherwise the request is held')
    rep.require('C14.a', 'entry points that emit a request frame', n, 4)
    # the gate itself: honoured and not allowed -> hold queue only; allowed -> send queue
    sr = ctx.repo.func('rsocket.rsocket_base:RSocketBase.send_request')
    rr = slots.frame_classes['RequestResponseFrame']
    for cls in (slots.RSocketClient,):
        ps = ctx.paths(sr, cls, args={'frame': AVal(('param', sr.qualname, 'frame'), [rr], exact=True)},
                       initial_heap={(('self',), '_honor_lease'): const(True)})
        ok = True
        detail = ''
        n_hold = n_send = 0
        for p in ps:
            if p.outcome != 'return':
                continue
            verdict = None
            for e in p.events:
                if e.kind == 'exit' and e.data['callee'].name == '_is_request_allowed':
                    pass
            rets = [e for e in p.events if e.kind == 'return' and e.func.name == '_is_request_allowed']
            if rets:
                v = rets[-1].data['value']
                verdict = v.const if v.is_const() else None
            to_send = [e for e in p.events if is_enq_send(e, slots)]
            to_hold = [e for e in p.events if is_enq_lease(e, slots)]
            if verdict is True:
                n_send += 1
                if len(to_send) != 1 or to_hold:
                    ok, detail = False, 'an allowed request is not sent exactly once'
            elif verdict is False:
                n_hold += 1
                if to_send or len(to_hold) != 1:
                    ok, detail = False, 'a request without allowance reaches the send queue or is not held exactly once'
        if n_hold == 0 or n_send == 0:
            ok, detail = False, 'the gate does not have both outcomes (held %d, sent %d)' % (n_hold, n_send)
        rep.add('C14.a', 'RSocketBase.send_request / allowed -> send queue, otherwise -> hold queue', sr, ok,
                detail or 'with a defined lease: %d allowing paths send once, %d refusing paths hold once' % (
                    n_send, n_hold))


def rule_b(ctx):
    rep = ctx.report
    dl = ctx.repo.cls('rsocket.lease:DefinedLease')
    f = dl.lookup('_is_request_allowed') or dl.lookup('is_request_allowed')
    if f is None:
        raise AnalysisError('C14.b: DefinedLease allowance method vanished')
    paths = [p for p in ctx.paths(dl.lookup('is_request_allowed'), dl) if p.outcome == 'return']
    if not paths:
        raise AnalysisError('C14.b: no returning path')
    ok_order = ok_inc = ok_cond = True
    detail = ''
    n_true = 0
    for p in paths:
        expiry = [e for e in p.events if e.kind == 'cond' and 'now' in repr(e.data['key'])]
        incs = [e for e in p.events if e.kind == 'store' and e.data['target'][0] == 'attr' and
                e.data['target'][2] == '_request_counter']
        counts = [e for e in p.events if e.kind == 'cond' and 'maximum_request_count' in repr(e.data['key'])]
        rv = p.value.const if p.value is not None and p.value.is_const() else None
        if not expiry:
            ok_order, detail = False, 'a path does not test the expiry'
        elif incs and expiry[0].seq > incs[0].seq:
            ok_order, detail = False, 'the request is counted before the expiry is tested'
        if rv is True:
            n_true += 1
            # expiry must have been tested and not expired: created + ttl <= now is False
            k = strip_epoch(expiry[0].data['key']) if expiry else None
            if len(incs) != 1:
                ok_inc, detail = False, 'an accepting path advances the counter %d times' % len(incs)
            else:
                t = strip_epoch(incs[0].data['value'].term)
                if not (t[0] == 'op' and t[1] == 'Add' and ('const', 1) in (t[2], t[3])):
                    ok_inc, detail = False, 'the counter is not advanced by exactly 1 (%s)' % fmt_term(t)
            if not counts:
                ok_cond, detail = False, 'an accepting path does not compare the counter with the granted count'
            else:
                kk = strip_epoch(counts[-1].data['key'])
                v = counts[-1].data['value']
                # accept iff not (max < counter_after_increment), i.e. counter+1 <= max
                good = kk[0] == 'lt' and kk[1] == ('attr', ('self',), 'maximum_request_count') and v is False and \
                    'Add' in repr(kk[2])
                if not good:
                    ok_cond = False
                    detail = 'the accepting condition is %s=%s, which is not counter+1 <= granted' % (fmt_term(kk), v)
        elif rv is False and expiry and expiry[0].data['value'] is True and False:
            pass
    if n_true == 0:
        ok_cond, detail = False, 'no accepting path'
    rep.add('C14.b', 'DefinedLease.is_request_allowed / expiry before count', f, ok_order,
            'the time-to-live is tested before the request is counted' if ok_order else detail)
    rep.add('C14.b', 'DefinedLease.is_request_allowed / one count per request', f, ok_inc,
            'the counter advances by exactly 1 on every accepting path' if ok_inc else detail)
    rep.add('C14.b', 'DefinedLease.is_request_allowed / accept iff counter+1 <= granted', f, ok_cond,
            'a request is accepted exactly while the advanced counter does not exceed the granted count' if ok_cond
            else detail)
    # expiry direction: expired iff created + ttl <= now
    ok_exp = True
    for p in paths:
        for e in p.events:
            if e.kind == 'cond' and 'now' in repr(e.data['key']) and e.data['key'][0] == 'lt':
                k = strip_epoch(e.data['key'])
                # "created + ttl <= now" normalises to not lt(now, created+ttl)
                rv = p.value.const if p.value is not None and p.value.is_const() else None
                now_first = 'now' in repr(k[1])
                expired = (not e.data['value']) if now_first else e.data['value']
                if expired and rv is not False:
                    ok_exp = False
                if 'maximum_lease_time' not in repr(k) or '_lease_created_at' not in repr(k):
                    ok_exp = False
    # ... and the test is exact: the whole elapsed time against the whole time-to-live.  timedelta.seconds / .days /
    # .microseconds are components, not the duration: comparing one of them rounds the age of the lease down.
    def _unwrap_seconds(t):
        t = strip_epoch(t)
        if isinstance(t, tuple) and t and t[0] == 'pure' and t[1] == 'total_seconds':
            return strip_epoch(t[2]), True
        return t, False

    def _is_now(t):
        return isinstance(t, tuple) and t and t[0] == 'call' and 'now' in str(t[1])

    CRE = ('attr', ('self',), '_lease_created_at')
    TTL = ('attr', ('self',), 'maximum_lease_time')
    n_exp = 0
    for p in paths:
        seen_here = 0
        for e in p.events:
            if e.kind != 'cond' or 'now' not in repr(e.data['key']):
                continue
            k = strip_epoch(e.data['key'])
            if k[0] not in ('lt', 'le', 'gt', 'ge') or len(k) != 3:
                ok_exp = False
                continue
            (a, wa), (b, wb) = _unwrap_seconds(k[1]), _unwrap_seconds(k[2])
            if wa != wb:
                ok_exp = False
                continue
            sides = [a, b]
            sum_form = any(_is_now(x) for x in sides) and any(
                isinstance(x, tuple) and x[0] == 'op' and x[1] == 'Add' and {strip_epoch(x[2]), strip_epoch(x[3])} ==
                {CRE, TTL} for x in sides)
            diff_form = TTL in sides and any(
                isinstance(x, tuple) and x[0] == 'op' and x[1] == 'Sub' and _is_now(strip_epoch(x[2])) and
                strip_epoch(x[3]) == CRE for x in sides)
            if not (sum_form or diff_form):
                ok_exp = False
            else:
                seen_here += 1
        if seen_here:
            n_exp += 1
    if n_exp != len(paths):
        ok_exp = False
    rep.add('C14.b', 'DefinedLease.is_request_allowed / expired lease refuses', f, ok_exp,
            'once creation time + time-to-live is not after now, every path refuses' if ok_exp else
            'an expired lease can still accept a request (or the expiry test is not the whole elapsed time against the '
            'whole time-to-live: now vs created + ttl, or now - created vs ttl)')


def rule_c(ctx):
    rep = ctx.report
    slots = ctx.slots
    f = ctx.repo.func('rsocket.rsocket_base:RSocketBase._reset_internals')
    ps = ctx.paths(f, slots.RSocketClient, initial_heap={(('self',), '_honor_lease'): const(True)},
                   no_inline={'stop_all_streams'})
    ok = bool(ps)
    for p in ps:
        news = [e for e in p.events if e.kind == 'new' and e.data['cls'].name == 'DefinedLease']
        if len(news) != 1:
            ok = False
            continue
        kw = news[0].data.get('kwargs', {})
        a = kw.get('maximum_request_count') or (news[0].data['args'][0] if news[0].data.get('args') else None)
        if a is None or not (a.is_const() and a.const == 0):
            ok = False
        st = [e for e in p.events if e.kind == 'store' and e.data['target'][0] == 'attr' and
              e.data['target'][2] == '_requester_lease']
        if not st or st[-1].data['value'].term != news[0].data['value'].term:
            ok = False
    rep.add('C14.c', 'RSocketBase._reset_internals / lease before the first LEASE grants nothing', f, ok,
            'with lease honouring on, the initial requester lease is DefinedLease(0)' if ok else
            'the requester lease installed before any LEASE frame arrives is not the literal zero-request lease')


def rule_d(ctx):
    rep = ctx.report
    slots = ctx.slots
    f = ctx.repo.func('rsocket.rsocket_base:RSocketBase.handle_lease')
    frame_term = ('param', f.qualname, 'frame')
    ps = ctx.paths(f, slots.RSocketClient, inline_depth=2)
    if not ps:
        raise AnalysisError('C14.d: handle_lease has no path')
    ok_new = ok_order = ok_once = True
    d1 = d2 = d3 = ''
    for p in ps:
        news = [e for e in p.events if e.kind == 'new' and e.data['cls'].name == 'DefinedLease']
        if len(news) != 1:
            ok_new, d1 = False, 'a LEASE frame does not install exactly one new lease'
            continue
        args = news[0].data.get('args') or []
        kw = news[0].data.get('kwargs', {})
        cnt = kw.get('maximum_request_count') or (args[0] if args else None)
        ttl = kw.get('maximum_lease_time') or (args[1] if len(args) > 1 else None)
        if cnt is None or strip_epoch(cnt.term) != ('attr', frame_term, 'number_of_requests'):
            ok_new, d1 = False, 'the installed count is %s, not the frame\'s number of requests' % (
                fmt_term(cnt.term) if cnt else None)
        if ttl is None or not _is_ms_timedelta(ttl.term, ('attr', frame_term, 'time_to_live')):
            ok_new, d1 = False, 'the installed time-to-live is %s, not timedelta(milliseconds=frame.time_to_live)' % (
                fmt_term(ttl.term) if ttl else None)
        st = [e for e in p.events if e.kind == 'store' and e.data['target'][0] == 'attr' and
              e.data['target'][2] == '_requester_lease']
        if not st or st[0].data['value'].term != news[0].data['value'].term:
            ok_new, d1 = False, 'the new lease is not installed as the requester lease'
        # drain loop: emptiness before allowance at every evaluation of the loop condition
        evs = p.events
        for i, e in enumerate(evs):
            if e.kind == 'call' and e.data.get('name') == 'is_request_allowed' or (
                    e.kind == 'enter' and e.data['callee'].name == 'is_request_allowed'):
                # the closest preceding queue-emptiness test must come after the previous allowance/dequeue
                prev = None
                for b in reversed(evs[:i]):
                    if b.kind == 'call' and b.data.get('name') in ('empty', 'qsize') and \
                            slots.request_queue_attr in repr(b.data.get('recv').term if b.data.get('recv') else ''):
                        prev = 'empty'
                        break
                    if b.kind == 'call' and b.data.get('name') in ('get_nowait', 'is_request_allowed'):
                        prev = b.data['name']
                        break
                    if b.kind == 'enter' and b.data['callee'].name == 'is_request_allowed':
                        prev = 'is_request_allowed'
                        break
                if prev != 'empty':
                    ok_order, d2 = False, 'an allowance is consumed (line %s) before the hold queue is known to be ' \
                                          'non-empty: every LEASE burns one grant' % e.line
        deq = [e for e in p.events if e.kind == 'call' and e.data.get('name') == 'get_nowait' and
               slots.request_queue_attr in repr(e.data['recv'].term)]
        for dq in deq:
            sends = [e for e in p.events if is_enq_send(e, slots) and e.data.get('args') and
                     e.data['args'][0].term == dq.data['value'].term]
            if len(sends) != 1:
                ok_once, d3 = False, 'a dequeued request is moved to the send queue %d times' % len(sends)
    rep.add('C14.d', 'RSocketBase.handle_lease / installs the announced lease', f, ok_new,
            d1 or 'count and time-to-live (milliseconds) of the frame become the requester lease')
    rep.add('C14.d', 'RSocketBase.handle_lease / emptiness tested before an allowance is consumed', f, ok_order,
            d2 or 'the loop condition evaluates queue emptiness before is_request_allowed()')
    rep.add('C14.d', 'RSocketBase.handle_lease / each held request released once', f, ok_once,
            d3 or 'every frame taken from the hold queue is put into the send queue exactly once')


def _is_ms_timedelta(term, inner):
    t = strip_epoch(term)
    if t[0] != 'call' or not str(t[1]).endswith('timedelta'):
        return False
    kws = [a for a in t[2] if isinstance(a, tuple) and a and a[0] == 'kw']
    pos = [a for a in t[2] if not (isinstance(a, tuple) and a and a[0] == 'kw')]
    return not pos and len(kws) == 1 and kws[0][1] == 'milliseconds' and strip_epoch(kws[0][2]) == inner


def rule_e(ctx):
    rep = ctx.report
    dl = ctx.repo.cls('rsocket.lease:DefinedLease')
    f = dl.lookup('to_frame')
    ps = [p for p in ctx.paths(f, dl, inline_depth=1) if p.outcome == 'return']
    ok = bool(ps)
    detail = ''
    for p in ps:
        obj = p.value.term
        last = {}
        for e in p.events:
            if e.kind == 'store' and e.data['target'][0] == 'attr' and e.data['target'][1] == obj:
                last[e.data['target'][2]] = strip_epoch(e.data['value'].term)
        if last.get('number_of_requests') != ('attr', ('self',), 'maximum_request_count'):
            ok, detail = False, 'the announced count is %s, not the published count' % fmt_term(
                last.get('number_of_requests'))
        ttl = last.get('time_to_live')
        if not (ttl and ttl[0] == 'call' and ttl[1] == 'to_milliseconds' and
                strip_epoch(ttl[2][0]) == ('attr', ('self',), 'maximum_lease_time')):
            ok, detail = False, 'the announced time-to-live is %s, not to_milliseconds(lease time)' % fmt_term(ttl)
    rep.add('C14.e', 'DefinedLease.to_frame / announces the published lease', f, ok,
            detail or 'count copied, time-to-live converted to milliseconds')
    sl = ctx.repo.func('rsocket.rsocket_base:RSocketBase.send_lease')
    ps = ctx.paths(sl, ctx.slots.RSocketServer, inline_depth=2, no_inline={'to_frame'})
    ok = True
    for p in ps:
        if p.outcome != 'return':
            continue
        enq = [e for e in p.events if is_enq_send(e, ctx.slots)]
        tf = [e for e in p.events if e.kind == 'call' and e.data.get('name') == 'to_frame']
        if len(enq) != 1 or len(tf) != 1 or enq[0].data['args'][0].term != tf[0].data['value'].term:
            ok = False
        else:
            r = strip_epoch(tf[0].data['recv'].term)
            if r != ('param', sl.qualname, 'lease') and r != ('attr', ('self',), '_responder_lease'):
                ok = False
    rep.add('C14.e', 'RSocketBase.send_lease / one LEASE frame per published lease', sl, ok,
            'exactly the frame of the published lease is enqueued, once' if ok else
            'a published lease is not announced by exactly its own frame')
    from .c16 import rule_a as conv
    conv(ctx, rule='C16.a')


def rule_f(ctx):
    from .c08 import rule_g
    rule_g(ctx)


def rule_gate_scope(ctx):
    """Only new requests are subject to the lease, and only on a side that asked for leases: no other frame is held
    or consumes an allowance; nothing is held unless `honor_lease` is on (an unsolicited LEASE cannot stall requests)."""
    rep = ctx.report
    slots = ctx.slots
    m = model(ctx)
    n_frames = 0
    n_held = 0
    for h in m.handlers:
        ok = True
        detail = ''
        where = h
        seen = 0
        for en in m.entries(h):
            for p in m.run(en, None):
                for cname, complete, ev in m.emitted(p):
                    if cname == '?':
                        continue
                    seen += 1
                    # innermost-to-outermost: the first socket-level function active at the enqueue
                    stack = []
                    for e in p.events:
                        if e.seq >= ev.seq:
                            break
                        if e.kind == 'enter':
                            stack.append(e)
                        elif e.kind == 'exit' and stack:
                            stack.pop()
                    sock = [e for e in stack if e.data['callee'].cls is not None and
                            e.data['callee'].cls.is_subclass_of(slots.RSocketBase)]
                    s0 = sock[0].seq if sock else ev.seq
                    consults = [e for e in p.events if s0 < e.seq < ev.seq and (
                        (e.kind == 'call' and e.data.get('name') == 'is_request_allowed') or
                        (e.kind == 'enter' and e.data['callee'].name == 'is_request_allowed'))]
                    held = is_enq_lease(ev, slots)
                    if cname not in tables.REQUEST_FRAME_INTERACTION:
                        if held:
                            ok, detail, where = False, 'a %s frame can be held in the lease queue (%s)' % (
                                cname, en.name), (ev.func.file, ev.line)
                        elif consults:
                            ok, detail, where = False, 'sending a %s frame consumes a lease allowance (%s)' % (
                                cname, en.name), (ev.func.file, ev.line)
                    elif held:
                        n_held += 1
                        hon = [c for c in p.events if s0 < c.seq < ev.seq and c.kind == 'cond' and
                               c.data['key'][0] == 'truth' and '_honor_lease' in repr(c.data['key'])]
                        if not hon or hon[-1].data['value'] is not True:
                            ok, detail, where = False, ('a %s is held although this side never asked for leases: an '
                                                        'unsolicited LEASE from the peer stalls every request' % cname), \
                                (ev.func.file, ev.line)
        n_frames += seen
        if seen:
            rep.add('C14.f', '%s / only new requests are gated, only when leases are honoured' % h.name, where, ok,
                    detail or 'of the %d frame enqueues on its paths none but a new request is held or consults the '
                              'lease, and a request is held only behind a true honor_lease test' % seen)
    if n_frames < 20 or n_held < 3:
        raise AnalysisError('C14.f: %d enqueues / %d held requests found (vacuity guard)' % (n_frames, n_held))


def rule_ctor(ctx):
    """The lease object enforces what it was given: the count and the time-to-live the gate reads are the constructor's
    arguments, unmodified (a default may replace an argument only when it is None - a zero time-to-live or a zero
    count are meaningful: "no requests"); the request counter starts at 0 and the creation time is taken."""
    rep = ctx.report
    dl = ctx.repo.cls('rsocket.lease:DefinedLease')
    init = dl.lookup('__init__')
    gate = dl.lookup('_is_request_allowed') or dl.lookup('is_request_allowed')
    if init is None or gate is None:
        raise AnalysisError('C14.g: DefinedLease.__init__ / gate vanished')
    params = init.params()[1:]
    if len(params) < 2:
        raise AnalysisError('C14.g: DefinedLease.__init__ takes %s' % params)
    # attributes the gate reads
    read = set()
    for p in ctx.paths(gate, dl, inline_depth=2):
        for c in p.events:
            if c.kind == 'cond':
                for x in _flat(strip_epoch(c.data['key'])):
                    if isinstance(x, tuple) and len(x) >= 3 and x[0] == 'attr' and x[1] == ('self',):
                        read.add(x[2])
    ok = True
    why = ''
    n = 0
    stored = {}
    for p in ctx.paths(init, dl, inline_depth=1):
        if p.outcome != 'return':
            continue
        n += 1
        last = {}
        for e in p.events:
            if e.kind == 'store' and e.data['target'][0] == 'attr' and e.data['target'][1] == ('self',):
                last[e.data['target'][2]] = (strip_epoch(e.data['value'].term), e)
        for attr, (val, ev) in last.items():
            stored.setdefault(attr, []).append(val)
            if attr not in read:
                continue
            src = [q for q in params if ('param', init.qualname, q) in _flat(val) or val == ('param', init.qualname, q)]
            if val[0] == 'param':
                continue
            if val == ('const', 0):
                continue  # the counter
            if val[0] in ('call', 'pure') and 'now' in str(val[1]):
                continue  # creation time
            # anything else: a replacement value; allowed only where the argument it replaces is None
            nones = [c for c in p.events if c.kind == 'cond' and c.data['key'][0] == 'isnone' and
                     strip_epoch(c.data['key'][1])[0] == 'param' and c.data['value'] is True and c.seq < ev.seq]
            if not nones:
                ok, why = False, ('self.%s, which the gate reads, is set to %s instead of the constructor argument on a '
                                  'path where that argument is not None (a falsy argument - 0 requests, a zero '
                                  'time-to-live - is replaced by a default)' % (attr, fmt_term(val)[:60]))
    by_param = {a: v for a, v in stored.items() if a in read and any(x[0] == 'param' for x in v)}
    if ok and len(by_param) < 2:
        ok, why = False, 'the gate reads %s but the constructor stores its arguments into %s' % (
            sorted(read), sorted(by_param))
    rep.add('C14.g', 'DefinedLease.__init__ / the gate enforces the constructor arguments', init, ok and n > 0,
            why or 'count and time-to-live stored unmodified; counter 0; creation time now() (%d paths)' % n)


def _flat(t):
    out = []
    if isinstance(t, tuple):
        out.append(t)
        for x in t:
            out.extend(_flat(x))
    return out


def rule_plumbing(ctx):
    from . import plumbing
    plumbing.rule_lease_drain(ctx, 'C14.d')
    plumbing.rule_lease_wiring(ctx, 'C14.e')


def rule_dispatch(ctx):
    """LEASE frames of the connection reach handle_lease (the method C14.d decides)."""
    from . import dispatch
    dispatch.rule_rows(ctx, 'C01.e', ['LeaseFrame'])
    dispatch.rule_lookup(ctx, 'C01.e')
    dispatch.rule_routing(ctx, 'C01.e', only=['LeaseFrame'])


def rule_hold_queue_bound(ctx):
    """Requests made without a lease are retained *up to the configured queue size* and released first-in first-out:
    the hold queue is built with the application's request_queue_size, and every producer puts with put_nowait() and
    lets QueueFull reach the caller.  A producer that waits for room instead (an awaited put, a task doing the put)
    retains more than the configured number - and the waiting put is woken by the release loop and lands behind
    requests made later."""
    rep = ctx.report
    slots = ctx.slots
    base = slots.RSocketBase
    q = slots.request_queue_attr
    # the bound
    ctor = [(f, st) for f, st, v in ctx.repo.attr_assignments(slots.RSocketClient, q) +
            ctx.repo.attr_assignments(slots.RSocketServer, q)
            if isinstance(v, ast.Call) and 'Queue' in ast.unparse(v.func)]
    seen = set()
    ctor = [(f, st) for f, st in ctor if not (id(st) in seen or seen.add(id(st)))]
    if not ctor:
        raise AnalysisError('C14.h: the lease hold queue is constructed nowhere')
    ok, detail = True, ''
    init_params = set(base.lookup('__init__').params())
    for f, st in ctor:
        size = st.value.args[0] if st.value.args else next(
            (kw.value for kw in st.value.keywords if kw.arg == 'maxsize'), None)
        names = {x.attr if isinstance(x, ast.Attribute) else x.id for x in ast.walk(size)
                 if isinstance(x, (ast.Name, ast.Attribute))} if size is not None else set()
        if size is None or not any('request_queue_size' in n_ for n_ in names):
            ok, detail = False, 'the hold queue built in %s is not bounded by the configured request_queue_size' % \
                f.short
    rep.add('C14.h', 'lease hold queue / bounded by the configured size', ctor[0][0], ok,
            detail or 'Queue(<request_queue_size>) at every construction (%d)' % len(ctor))
    # the producers
    prods = []
    for k in (base, slots.RSocketClient, slots.RSocketServer):
        for m in k.methods.values():
            parents = {}
            for a in ast.walk(m.node):
                for b in ast.iter_child_nodes(a):
                    parents[b] = a
            for c in walk_local(m.node):
                if isinstance(c, ast.Call) and isinstance(c.func, ast.Attribute) and c.func.attr in ('put', 'put_nowait') \
                        and isinstance(c.func.value, ast.Attribute) and c.func.value.attr == q:
                    guarded = None
                    x = c
                    while x in parents:
                        x = parents[x]
                        if isinstance(x, ast.Try):
                            for h in x.handlers:
                                t = ast.unparse(h.type) if h.type is not None else 'BaseException'
                                if any(w in t for w in ('QueueFull', 'Exception', 'BaseException')) and not any(
                                        isinstance(r, ast.Raise) for st2 in h.body for r in ast.walk(st2)):
                                    guarded = t
                    prods.append((m, c, guarded))
    if not prods:
        raise AnalysisError('C14.h: nothing puts into the lease hold queue')
    ok, detail = True, ''
    for m, c, guarded in prods:
        if c.func.attr != 'put_nowait':
            ok, detail = False, ('%s (line %d) waits for room in the hold queue instead of failing: more than the '
                                 'configured number of requests is retained, and the late put lands behind later '
                                 'requests' % (m.short, c.lineno))
        elif guarded:
            ok, detail = False, '%s (line %d) swallows %s of the hold queue: the overflow is not reported' % (
                m.short, c.lineno, guarded)
    rep.add('C14.h', 'lease hold queue / overflow reaches the caller', prods[0][0], ok,
            detail or 'put_nowait() only, QueueFull not caught (%d producers)' % len(prods))



def rule_overflow_released(ctx):
    """(shared C10.e)  Requests are retained up to the configured queue size; the one that does not fit is refused
    cleanly - its stream registration is given back before QueueFull reaches the caller (rules/c10.py)."""
    from .c10 import rule_refused_request_is_released
    rule_refused_request_is_released(ctx, 'C10.e')




def rule_withdrawing_lease_decodable(ctx):
    """(shared C02.j)  A LEASE that grants nothing (0 requests, 0 ms) withdraws the previous one: it must reach
    handle_lease, so the decoder rejects no field value (rules/c02.py)."""
    from .c02 import rule_decoders_do_not_reject_values
    rule_decoders_do_not_reject_values(ctx)



RULES = [('C14.a', rule_a), ('C14.b', rule_b), ('C14.c', rule_c), ('C14.d', rule_d), ('C14.e', rule_e),
         ('C08.g', rule_f),
         ('C14.f', rule_gate_scope), ('C14.g', rule_ctor), ('C14.d+C14.e', rule_plumbing), ('C01.e', rule_dispatch), ('C14.h', rule_hold_queue_bound), ('C10.e', rule_overflow_released), ('C02.j', rule_withdrawing_lease_decodable)]
