"""C02 Frame codec round-trip, canonical bytes, backend independence."""
import ast
import re

from .. import AnalysisError
from .. import tables
from ..effects import strip_epoch
from ..index import walk_local, ClassInfo
from ..interp import fmt_term, const, AVal
from ..layout import LayoutError, lower_bytes_expr, Atoms, lower_read, to_lin
from ..linear import Lin
from . import COMMON_ASSUMPTIONS
from .codec import (frame_classes, reader_paths, writer_paths, emit_sig, init_consts, BACKENDS, HEADER,
                    path_conditions)

TECHNIQUE = 'codec layout extraction: provenance terms of parse()/serialize() lowered to wire bit positions and ' \
            'compared (reader vs writer vs both backends vs protocol table)'

EXPLANATION = (
    'Round-trip and backend independence of a straight-line codec reduce to "reader, writer and both backends '
    'implement the same layout"; that is what is decided. Every value parse() stores is lowered, through '
    'struct/cbitstruct format strings, slices, masks and shifts, to the wire bits it comes from; every byte '
    'serialize() writes is lowered to the attribute bits it carries. Per frame class (14, taken from the type '
    'registry), per header backend and per flag combination: (a) the reader item sequence equals the writer item '
    'sequence (fields, order, widths, masks such as 31/63 bits, conditional segments under the same flag) and both '
    'equal the RSocket 1.0 table; (b) each reader item starts where the previous one ended (positions are linear '
    'forms in the offset and in lengths read from the wire); (c) flag maps: for every writer path the set of header '
    'flag bits written equals the set of bits from which the reader would restore exactly the flags that were set, '
    'frame type and stream id occupy the same bits on both sides, and the constructor of each registered class '
    'carries the type id it is registered under; (d) the native and cbitstruct header parsers and helper pairs '
    'lower to the same bits (the reserved top bit of the stream id, outside the 31-bit range, is a recorded note); '
    '(e) the conditions under which the one-shot form, the two length computations and the incremental writer '
    'include the metadata length field, the metadata and the data agree on every feasible assignment, and both '
    'size headers are the low three bytes of a big-endian 32-bit length read after it is defined; (f) a payload '
    'frame with content always has the next bit written. Not decided: equality of arbitrary byte strings after a '
    'round trip (a value property).')
EXPLANATION_ADDED = ('(g) writer side: every section of serialize()/serialize_frame_prefix() is written where the previous one ended and every slice assignment keeps the buffer size; pack_string has no rejecting comparison below the capacity of its length byte. The byte-stream transport writes the incremental form completely: size-prefixed prefix of the frame it is given, then its metadata and data through write_data_metadata, once, in that order.')
EXPLANATION = EXPLANATION.replace(' Not decided', ' ' + EXPLANATION_ADDED + ' Not decided', 1) \
    if ' Not decided' in EXPLANATION else EXPLANATION + ' ' + EXPLANATION_ADDED
ASSUMPTIONS = COMMON_ASSUMPTIONS + ['struct and cbitstruct format strings mean what their documentation says']


def _abs_bits(read, origin='a0'):
    """Absolute wire bit numbers (MSB-first from the start of the frame) of a read at offset + const."""
    pos = read.pos
    if set(pos.coef) - {origin} or pos.coef.get(origin, 0) != 1:
        return None
    base = int(pos.const) * 8
    return [None if b is None else base + b for b in read.bits]


def _live_items(items):
    """Reader items without the discarded sub-fields (e.g. the reserved u1 of a 'u1u63' read): an unnamed, unused
    integer that shares its bytes with a named item is not an item of its own."""
    out = []
    for it in items:
        if it.read.kind == 'int' and it.field is None and it.lenof is None and any(
                o is not it and o.read.kind == 'int' and o.read.pos == it.read.pos and
                o.read.nbytes == it.read.nbytes and (o.field or o.lenof) for o in items):
            continue
        out.append(it)
    return out


def _reader_sig(items):
    out = []
    for it in _live_items(items):
        if it.read.kind == 'bytes':
            out.append(('bytes', it.field))
        elif it.read.kind == 'int':
            if set(it.read.pos.coef) == {'a0'} and it.read.pos.const < HEADER:
                continue  # header
            out.append(('int', it.read.nbytes, it.read.value_bits(), it.field, it.lenof))
    return out


def _match_int(r, w):
    """reader ('int', nbytes, bits, field, lenof) vs writer ('int', nbytes, bits, role)"""
    if r[0] != 'int' or w[0] != 'int' or r[1] != w[1] or r[2] != w[2]:
        return False
    role = w[3]
    if role == r[3] and r[3] is not None:
        return True
    if isinstance(role, tuple) and role[0] == 'lenof' and r[4] is not None and role[1] == r[4]:
        return True
    return False


def _seq_equal(rs, ws):
    if len(rs) != len(ws):
        return 'reader has %d items, writer %d: reader %s / writer %s' % (len(rs), len(ws), rs, ws)
    for i, (r, w) in enumerate(zip(rs, ws)):
        if r[0] == 'bytes':
            if w[0] != 'bytes' or w[1] != r[1]:
                return 'item %d: reader reads bytes of %s, writer emits %s' % (i, r[1], w)
        elif not _match_int(r, w):
            return 'item %d: reader %s, writer %s' % (i, r, w)
    return None


def _spec_seq(cname, conds):
    spec = tables.FRAME_LAYOUT.get(cname)
    if spec is None:
        return None
    out = []

    def add(items):
        for it in items:
            if it == 'META':
                if conds.get('flags_metadata'):
                    out.append(('int', 3, 24, None, 'metadata'))
                    out.append(('bytes', 'metadata'))
            elif it == 'META_ONLY':
                if conds.get('flags_metadata'):
                    out.append(('bytes', 'metadata'))
            elif it == 'DATA':
                out.append(('bytes', 'data'))
            elif it[0] == 'cond':
                if conds.get(it[1]):
                    add(it[2])
            elif it[0] == 'str8':
                out.append(('int', 1, 8, None, it[1]))
                out.append(('bytes', it[1]))
            elif it[0] == 'bytes':
                out.append(('bytes', it[1]))
            else:
                w, b = {'u16': (2, 16), 'u32': (4, 32), 'u31': (4, 31), 'u63': (8, 63)}[it[0]]
                out.append(('int', w, b, it[1], None))

    add(spec)
    return out


def _spec_match(rs, ss):
    if len(rs) != len(ss):
        return 'reader has %d items, the protocol table %d: %s / %s' % (len(rs), len(ss), rs, ss)
    for i, (r, s) in enumerate(zip(rs, ss)):
        if r[0] != s[0]:
            return 'item %d: %s vs table %s' % (i, r, s)
        if r[0] == 'bytes':
            if r[1] != s[1]:
                return 'item %d: bytes of %s vs table %s' % (i, r[1], s[1])
        else:
            if r[1] != s[1] or r[2] != s[2]:
                return 'item %d: %s is %d bytes/%s bits, table says %d bytes/%d bits' % (
                    i, r[3] or ('length of ' + str(r[4])), r[1], r[2], s[1], s[2])
            if s[3] is not None and r[3] != s[3]:
                return 'item %d: field %s vs table %s' % (i, r[3], s[3])
            if s[3] is None and r[4] != s[4]:
                return 'item %d: length of %s vs table length of %s' % (i, r[4], s[4])
    return None


def _select_writers(rconds, ritems, wpaths, owned_flags):
    has_meta_cond = 'flags_metadata' in rconds
    reads_data = any(it.read.kind == 'bytes' and it.field == 'data' for it in ritems)
    out = []
    for wc, hb, rest, atoms, p in wpaths:
        ok = True
        for fl in owned_flags:
            if fl in rconds and fl in wc and wc[fl] != rconds[fl]:
                ok = False
        meta = rconds.get('flags_metadata', False) if has_meta_cond else False
        if wc.get('metadata', False) != meta:
            ok = False
        if 'flags_metadata' in wc and wc['flags_metadata'] != meta and wc.get('metadata', False):
            ok = False
        if 'data' in wc and wc['data'] != reads_data:
            ok = False
        if ok:
            out.append((wc, hb, rest, atoms, p))
    return out


def rule_a(ctx, only=None):
    rep = ctx.report
    fc = frame_classes(ctx)
    rep.require('C02.a', 'registered frame classes', len(fc), 14)
    for tname, T in sorted(fc.items(), key=lambda kv: kv[1].name):
        if only is not None and T.name not in only:
            continue
        for backend in BACKENDS:
            try:
                rps = reader_paths(ctx, T, backend)
                wps = writer_paths(ctx, T, backend)
            except LayoutError as e:
                raise AnalysisError('C02.a: %s (%s backend): %s' % (T.name, backend, e))
            if not rps or not wps:
                raise AnalysisError('C02.a: no %s path for %s' % ('reader' if not rps else 'writer', T.name))
            owned = set(tables.FRAME_FLAGS.get(T.name, {}))
            problems = []
            spec_problems = []
            n_cmp = 0
            for rconds, items, flags, atoms, p in rps:
                rs = _reader_sig(items)
                sel = _select_writers(rconds, items, wps, owned)
                if not sel:
                    problems.append('no writer path for reader conditions %s' % rconds)
                    continue
                for wc, hb, rest, watoms, wp in sel:
                    n_cmp += 1
                    ws = [emit_sig(e) for e in rest]
                    d = _seq_equal(rs, ws)
                    if d:
                        problems.append('under %s: %s' % (rconds, d))
                        break
                ss = _spec_seq(T.name, rconds)
                if ss is None:
                    raise AnalysisError('C02.a: no protocol table row for %s' % T.name)
                d = _spec_match(rs, ss)
                if d:
                    spec_problems.append('under %s: %s' % (rconds, d))
            # the table row is matched under the reader's own path conditions: a reader that never looks at the
            # metadata flag would agree with the row "without metadata" only - so the distinction itself is required
            spec_items = tables.FRAME_LAYOUT.get(T.name) or []
            if any(it in ('META', 'META_ONLY') for it in spec_items) and not any(
                    rc.get('flags_metadata') is True and ('bytes', 'metadata') in [
                        (x[0], x[1]) for x in _reader_sig(its) if x[0] == 'bytes']
                    for rc, its, _f, _a, _p in rps):
                spec_problems.append('the protocol gives this frame type a metadata section, but no path of the reader '
                                     'reads one when the metadata flag is set: the metadata of every such frame is lost')
            c = '%s / reader = writer (%s)' % (T.name, backend)
            if problems:
                rep.bad('C02.a', c, T.lookup('parse'), problems[0], extra={'all': problems[:5]})
            else:
                rep.ok('C02.a', c, T.lookup('parse'),
                       '%d reader paths x matching writer paths (%d comparisons): same items, order, widths, masks' % (
                           len(rps), n_cmp))
            c = '%s / layout = RSocket 1.0 table (%s)' % (T.name, backend)
            if spec_problems:
                rep.bad('C02.a', c, T.lookup('parse'), spec_problems[0])
            else:
                rep.ok('C02.a', c, T.lookup('parse'), 'fields and widths as specified')


def rule_b(ctx):
    rep = ctx.report
    fc = frame_classes(ctx)
    for tname, T in sorted(fc.items(), key=lambda kv: kv[1].name):
        for backend in BACKENDS:
            rps = reader_paths(ctx, T, backend)
            bad = None
            n = 0
            for rconds, items, flags, atoms, p in rps:
                body = [it for it in _live_items(items)
                        if not (set(it.read.pos.coef) == {'a0'} and it.read.pos.const < HEADER)
                        and it.read.kind in ('int', 'bytes')]
                expect = Lin({'a0': 1}, HEADER)
                for bi, it in enumerate(body):
                    n += 1
                    note = getattr(it.read, 'exact_unpack', None)
                    if note is not None and note[0] == 'size':
                        bad = 'under %s: %s is unpacked with a format of %d bytes from a slice of %d bytes' % (
                            rconds, it.field, note[1], note[2])
                        break
                    if note is not None and note[0] == 'open' and bi + 1 < len(body):
                        bad = ('under %s: %s is unpacked with a fixed %d-byte format (struct.unpack raises unless it '
                               'gets exactly that many bytes) from an open-ended slice, but %s follows it in the '
                               'frame' % (rconds, it.field, note[1], body[bi + 1].field or 'another item'))
                        break
                    if it.read.pos != expect:
                        bad = 'under %s: %s is read at %r, the previous item ended at %r' % (
                            rconds, it.field or ('length of %s' % it.lenof), it.read.pos, expect)
                        break
                    w = it.width()
                    if w is None:
                        expect = None
                        break
                    expect = it.read.pos + w
                if bad:
                    break
            c = '%s.parse / items contiguous (%s)' % (T.name, backend)
            if bad:
                rep.bad('C02.b', c, T.lookup('parse'), bad)
            else:
                rep.ok('C02.b', c, T.lookup('parse'), '%d items, each starts where the previous ended' % n,
                       nontrivial=n > 0)


FLAG_REGION = range(38, 48)


def rule_b2(ctx):
    """Writer side of C02.b: sections of the serialized frame are contiguous, slice assignments keep the size."""
    rep = ctx.report
    fc = frame_classes(ctx)
    for tname, T in sorted(fc.items(), key=lambda kv: kv[1].name):
        for backend in BACKENDS:
            for entry in ('serialize', 'serialize_frame_prefix'):
                try:
                    wps = writer_paths(ctx, T, backend, entry)
                except LayoutError as e:
                    raise AnalysisError('C02.b: %s (%s backend): %s' % (T.name, backend, e))
                probs = ctx.cache.get(('writer_positions', T, backend, entry), [])
                c = '%s.%s / written sections contiguous and size-preserving (%s)' % (T.name, entry, backend)
                if probs:
                    rep.bad('C02.b', c, T.lookup('serialize') or T, probs[0], extra={'all': sorted(set(probs))[:5]})
                else:
                    rep.ok('C02.b', c, T.lookup('serialize') or T, '%d writer paths' % len(wps))


def rule_c(ctx):
    rep = ctx.report
    fc = frame_classes(ctx)
    for tname, T in sorted(fc.items(), key=lambda kv: kv[1].name):
        for backend in BACKENDS:
            rps = reader_paths(ctx, T, backend)
            wps = writer_paths(ctx, T, backend)
            # reader: flag attribute -> wire bit
            rbits = {}
            for rconds, items, flags, atoms, p in rps:
                for fl, rd in flags.items():
                    b = _abs_bits(rd)
                    if b is None or len([x for x in b if x is not None]) != 1:
                        raise AnalysisError('C02.c: flag %s of %s does not lower to one header bit' % (fl, T.name))
                    rbits.setdefault(fl, [x for x in b if x is not None][0])
            want = dict(tables.FRAME_FLAGS.get(T.name, {}))
            want.update({'flags_ignore': 0x200, 'flags_metadata': 0x100})
            problems = []
            for fl, mask in want.items():
                wire = 47 - (mask.bit_length() - 1)
                if rbits.get(fl) != wire:
                    problems.append('reader restores %s from wire bit %s, the protocol puts it at bit %d (mask 0x%x)' % (
                        fl, rbits.get(fl), wire, mask))
            extra = set(rbits) - set(want)
            if extra:
                problems.append('reader restores flags the class does not own: %s' % sorted(extra))
            # writer: per path, bits set == bits of the flags that are true on the path
            n = 0
            for wc, hb, rest, atoms, p in wps:
                # frame values outside the class's domain (a flag the class does not own set through a shared
                # base-class writer, e.g. follows on REQUEST_N) are not compared
                if any(k.startswith('flags_') and v and k not in rbits for k, v in wc.items()):
                    continue
                n += 1
                setbits = {i for i in FLAG_REGION if hb[i] == 1}
                sym = [i for i in FLAG_REGION if hb[i] not in (0, 1)]
                if sym:
                    problems.append('a header flag bit is not constant on a writer path (bit %d)' % sym[0])
                    break
                expect = set()
                for fl, bit in rbits.items():
                    if fl == 'flags_metadata':
                        if wc.get('metadata'):
                            expect.add(bit)
                    elif fl == 'flags_next' and T.name == 'PayloadFrame':
                        continue  # decided by rule C02.f (content forces the bit)
                    elif wc.get(fl):
                        expect.add(bit)
                nx = rbits.get('flags_next')
                cmp_set = {b for b in setbits if b != nx} if T.name == 'PayloadFrame' else setbits
                if cmp_set != expect:
                    names = {v: k for k, v in rbits.items()}
                    problems.append('with %s the writer sets flag bits %s, the reader would restore %s' % (
                        {k: v for k, v in wc.items() if k.startswith('flags_') or k == 'metadata'},
                        sorted(str(names.get(b, b)) for b in cmp_set), sorted(str(names.get(b, b)) for b in expect)))
                    break
            c = '%s / flag bits writer = reader = table (%s)' % (T.name, backend)
            if problems:
                rep.bad('C02.c', c, T, problems[0], extra={'all': problems[:4]})
            else:
                rep.ok('C02.c', c, T, 'flags %s on %d writer paths' % (sorted(rbits), n))
    # header fields: stream id and frame type occupy the same bits on both sides
    T = fc.get('PAYLOAD') or list(fc.values())[0]
    for backend in BACKENDS:
        rps = reader_paths(ctx, T, backend)
        wps = writer_paths(ctx, T, backend)
        rconds, items, flags, atoms, p = rps[0]
        hdr = {}
        for it in items:
            if it.field in ('stream_id', 'frame_type') and it.read.kind == 'int':
                hdr[it.field] = _abs_bits(it.read)
        wc, hb, rest, watoms, wp = wps[0]
        for field, lo, hi in (('stream_id', 0, 32), ('frame_type', 32, 38)):
            rb = hdr.get(field)
            if rb is None:
                raise AnalysisError('C02.c: reader does not restore %s from the header' % field)
            ok = True
            detail = ''
            # writer: wire bit i carries value bit (hi-1-i) of self.<field>
            for i in range(lo, hi):
                src = hb[i]
                if not (isinstance(src, tuple) and strip_epoch(src[0]) == ('attr', ('self',), field) and
                        src[1] == hi - 1 - i):
                    ok, detail = False, 'writer puts %s at wire bit %d, expected bit %d of %s' % (
                        src, i, hi - 1 - i, field)
            # reader: value bit j comes from wire bit hi-1-j (the reserved top bit of the stream id may be dropped)
            for j, wb in enumerate(rb):
                if wb is None:
                    continue
                if wb != hi - 1 - j:
                    ok, detail = False, 'reader takes bit %d of %s from wire bit %d, expected %d' % (j, field, wb,
                                                                                                     hi - 1 - j)
            nbits = len([x for x in rb if x is not None])
            need = 31 if field == 'stream_id' else 6
            if nbits < need:
                ok, detail = False, 'reader restores only %d bits of %s' % (nbits, field)
            if field == 'stream_id' and nbits == 32:
                rep.note('C02.c/C02.d: the %s header parser keeps the reserved top bit of the stream id '
                         '(outside the 31-bit range of the property)' % backend)
            rep.add('C02.c', 'header / %s bits writer = reader (%s)' % (field, backend), T.lookup('parse'), ok,
                    detail or '%s occupies wire bits %d..%d on both sides' % (field, lo, hi - 1))
    # registry: each registered class constructs itself with the type it is registered under
    m = ctx.repo.module('rsocket.frame')
    ft = m.classes.get('FrameType')
    if not ft:
        raise AnalysisError('C02.c: FrameType vanished')
    ids = {}
    for k, v in ft[-1].class_attrs.items():
        val = ctx.repo.try_const(m, v)
        if isinstance(val, int):
            ids[k] = val
    for k, T in sorted(fc.items()):
        ic = init_consts(ctx, T)
        init = T.lookup('__init__')
        got = None
        for p in ctx.paths(init, T):
            for e in p.events:
                if e.kind == 'store' and e.data['target'][0] == 'attr' and e.data['target'][2] == 'frame_type' and \
                        e.data['target'][1] == ('self',):
                    t = e.data['value'].term
                    got = t[2] if t[0] == 'enum' else fmt_term(t)
        ok = got == k and ids.get(k) == tables.FRAME_TYPE_IDS.get(k)
        rep.add('C02.c', 'registry / %s -> %s' % (k, T.name), T, ok,
                'constructed with FrameType.%s = %s as registered and specified' % (k, ids.get(k)) if ok else
                'class registered under %s (id %s, protocol id %s) constructs itself as %s' % (
                    k, ids.get(k), tables.FRAME_TYPE_IDS.get(k), got))


def rule_d(ctx):
    rep = ctx.report
    fc = frame_classes(ctx)
    for tname, T in sorted(fc.items(), key=lambda kv: kv[1].name):
        sigs = {}
        for backend in BACKENDS:
            rps = reader_paths(ctx, T, backend)
            s = []
            for rconds, items, flags, atoms, p in rps:
                fb = {fl: [x for x in _abs_bits(rd) if x is not None] for fl, rd in flags.items()}
                hdr = {}
                for it in items:
                    if it.field in ('stream_id', 'frame_type') and it.read.kind == 'int' and \
                            set(it.read.pos.coef) == {'a0'} and it.read.pos.const < HEADER:
                        b = _abs_bits(it.read)
                        if it.field == 'stream_id':
                            b = [x for x in b if x != 0]  # reserved top bit: recorded, not compared
                        hdr[it.field] = tuple(x for x in b if x is not None)
                s.append((tuple(sorted(rconds.items())), tuple(_reader_sig(items)), tuple(sorted(fb.items(),
                                                                                                 key=lambda x: x[0])),
                          tuple(sorted(hdr.items()))))
            sigs[backend] = sorted(s, key=repr)
        a, b = sigs['native'], sigs['cbitstruct']
        ok = repr(a) == repr(b)
        detail = ''
        if not ok:
            for x, y in zip(a, b):
                if repr(x) != repr(y):
                    detail = 'native: %s / cbitstruct: %s' % (repr(x)[:300], repr(y)[:300])
                    break
            else:
                detail = 'different number of reader paths (%d vs %d)' % (len(a), len(b))
        rep.add('C02.d', '%s.parse / native = cbitstruct' % T.name, T.lookup('parse'), ok,
                detail or 'both backends restore every field and flag from the same wire bits')
    # helper pairs: same names, same arity, and writer helpers lower to the same bytes
    m = ctx.repo.module('rsocket.frame_helpers')
    pairs = {n: fs for n, fs in m.functions.items() if len(fs) == 2 and {f.arm for f in fs} == {'try', 'except'}}
    rep.require('C02.d', 'helper functions with two backends', len(pairs), 5)
    for n, fs in sorted(pairs.items()):
        ar = {f.arm: len(f.params()) for f in fs}
        ok = len(set(ar.values())) == 1
        rep.add('C02.d', 'frame_helpers.%s / same arity in both backends' % n, fs[0], ok,
                'both definitions take %d parameters' % fs[0].params().__len__() if ok else 'arity differs: %s' % ar)
        lowered = {}
        for f in fs:
            ps = [p for p in ctx.paths(f, None, arm=f.arm, symbolic_compare=True) if p.outcome == 'return']
            if len(ps) != 1:
                raise AnalysisError('C02.d: helper %s (%s arm) has %d returning paths' % (n, f.arm, len(ps)))
            v = ps[0].value
            if v.term[0] == 'tuple':
                elems = [x.term if isinstance(x, AVal) else x for x in v.term[1]]
            elif v.term[0] == 'call' and 'unpack' in str(v.term[1]) and v.term[2] and v.term[2][0][0] == 'const':
                # the un-indexed result of an unpack call is the tuple of its fields
                from ..layout import cbit_fields, struct_fields
                fmt = v.term[2][0][1]
                n_f = len([x for x in cbit_fields(fmt) if x[2] != 'p']) if 'cbitstruct' in str(v.term[1]) else \
                    len(struct_fields(fmt))
                elems = [('unpack', v.term, i) for i in range(n_f)]
            else:
                elems = [v.term]
            params = [('param', f.qualname, pn) for pn in f.params()]
            desc = []
            for t in elems:
                desc.append(_describe_helper_value(t, params))
            lowered[f.arm] = desc
        ok = lowered['try'] == lowered['except']
        rep.add('C02.d', 'frame_helpers.%s / native = cbitstruct' % n, fs[0], ok,
                'both backends lower to %s' % (lowered['try'],) if ok else
                'cbitstruct arm: %s / native arm: %s' % (lowered['try'], lowered['except']))


def _describe_helper_value(t, params):
    """Canonical description of what a helper returns, in terms of its parameters."""
    atoms = Atoms()
    t = strip_epoch(t)

    def buffer_ok(x):
        x = strip_epoch(x)
        return x in params

    # reader helper: value read from the buffer parameter
    try:
        r = lower_read(t, atoms, buffer_ok)
    except LayoutError:
        r = None
    if r is not None:
        pos = r.pos
        names = {}
        for a, term in atoms.terms.items():
            names[a] = params.index(term) if term in params else fmt_term(term)
        posd = (tuple(sorted((str(names.get(k, k)), str(v)) for k, v in pos.coef.items())), str(pos.const))
        if r.kind == 'bytes':
            return ('bytes', posd, repr(r.width))
        bits = tuple(b for b in r.bits if b is not None)
        # boolean from one bit and integer from the same bit are the same information
        return ('read', posd, r.nbytes if len(bits) > 1 else None, bits, getattr(r, 'negated', False))
    # writer helper: bytes emitted
    try:
        out = []
        lower_bytes_expr(t, out, atoms)
        desc = []
        for em in out:
            if em.kind == 'bytes':
                s = strip_epoch(em.src)
                desc.append(('bytes', params.index(s) if s in params else fmt_term(s)))
            else:
                bits = []
                for b in em.bits:
                    if isinstance(b, tuple) and not isinstance(b[0], str):
                        s = strip_epoch(b[0])
                        bits.append((params.index(s) if s in params else fmt_term(s), b[1]))
                    else:
                        bits.append(b)
                desc.append(('int', em.nbytes, tuple(bits)))
        return ('emit', tuple(desc))
    except LayoutError:
        pass
    return ('other', fmt_term(t))


# ------------------------------------------------------------------------------------------ C02.e

PREDS = ('metadata', 'flags_metadata', 'metadata_only', 'data')


def _key(conds):
    return tuple(sorted((k, v) for k, v in conds.items() if k in PREDS))


def _table_from_writer(ctx, T, entry):
    """{path predicate assignment: {'metalen': bool, 'metadata': bool, 'data': bool}} for a writer form."""
    out = {}
    for wc, hb, rest, atoms, p in writer_paths(ctx, T, 'native', entry=entry, bind_init=False):
        sigs = [emit_sig(e) for e in rest]
        out[_key(wc)] = {
            'metalen': any(s[0] == 'int' and s[1] == 3 and s[3] == ('lenof', 'metadata') for s in sigs),
            'metadata': ('bytes', 'metadata') in sigs,
            'data': ('bytes', 'data') in sigs,
        }
    return out


def _table_from_callback_writer(ctx, T, fname):
    f = T.lookup(fname)
    if f is None:
        raise AnalysisError('C02.e: %s.%s vanished' % (T.name, fname))
    out = {}
    cb = f.params()[1] if len(f.params()) > 1 else None
    for p in ctx.paths(f, T, symbolic_compare=True, stable_attrs=True):
        if p.outcome != 'return':
            continue
        written = []
        for e in p.events:
            if e.kind == 'call' and e.data.get('name') == cb:
                for a in e.data.get('args') or []:
                    written.append(strip_epoch(a.term))
        order = [t[2] for t in written if t[0] == 'attr' and t[1] == ('self',)]
        out[_key(path_conditions(p))] = {'metadata': 'metadata' in order, 'data': 'data' in order,
                                         'order_ok': order in (['metadata', 'data'], ['metadata'], ['data'], [])}
    return out


def _table_from_length(ctx, T, fname):
    f = T.lookup(fname)
    if f is None:
        raise AnalysisError('C02.e: %s.%s vanished' % (T.name, fname))
    args = {}
    if 'middle' in f.params():
        args['middle'] = const(b'')
    out = {}
    for p in ctx.paths(f, T, args=args, symbolic_compare=True, stable_attrs=True):
        if p.outcome != 'return':
            continue
        atoms = Atoms()
        lin = to_lin(p.value.term, atoms)
        names = {}
        for a, t in atoms.terms.items():
            if t[0] == 'pure' and t[1] == 'len' and t[3]:
                inner = strip_epoch(t[3][0])
                if inner[0] == 'attr' and inner[1] == ('self',):
                    names[inner[2]] = lin.coef.get(a, 0)
        out[_key(path_conditions(p))] = {'metalen': lin.const - (HEADER if 'prefix' in fname else 0) == 3,
                                         'metadata': names.get('metadata', 0) == 1,
                                         'data': names.get('data', 0) == 1, 'const': lin.const}
    return out


def _feasible(assign: dict) -> bool:
    # Frame.flags_metadata is `self.metadata or self._flags_metadata`: metadata present implies the flag
    if assign.get('metadata') is True and assign.get('flags_metadata') is False:
        return False
    return True


def _eval(table, assign: dict):
    """Value of a partial-assignment table under a total assignment (None when no path matches)."""
    res = set()
    for key, v in table.items():
        if all(assign.get(k) == b for k, b in key):
            res.add(v)
    if len(res) == 1:
        return res.pop()
    if not res:
        return None
    return 'ambiguous'


def rule_e(ctx):
    rep = ctx.report
    fc = frame_classes(ctx)
    T = fc['PAYLOAD']
    import itertools
    base = ctx.repo.cls('rsocket.frame:Frame')
    forms = {
        'serialize (one-shot)': _table_from_writer(ctx, T, 'serialize'),
        'serialize_frame_prefix (incremental prefix)': _table_from_writer(ctx, T, 'serialize_frame_prefix'),
        'write_data_metadata (incremental payload)': _table_from_callback_writer(ctx, T, 'write_data_metadata'),
        '_compute_frame_prefix_length': _table_from_length(ctx, T, '_compute_frame_prefix_length'),
        '_compute_data_metadata_length': _table_from_length(ctx, T, '_compute_data_metadata_length'),
    }
    which = {
        'metalen': ['serialize (one-shot)', 'serialize_frame_prefix (incremental prefix)',
                    '_compute_frame_prefix_length'],
        'metadata': ['serialize (one-shot)', 'write_data_metadata (incremental payload)',
                     '_compute_data_metadata_length'],
        'data': ['serialize (one-shot)', 'write_data_metadata (incremental payload)',
                 '_compute_data_metadata_length'],
    }
    for what, labels in which.items():
        problems = []
        n = 0
        for vals in itertools.product([False, True], repeat=len(PREDS)):
            assign = dict(zip(PREDS, vals))
            if not _feasible(assign):
                continue
            n += 1
            got = []
            for label in labels:
                tab = {k: v[what] for k, v in forms[label].items()}
                got.append((label, _eval(tab, assign)))
            vs = {v for _, v in got if v is not None}
            if len(vs) > 1 or 'ambiguous' in vs:
                problems.append('with %s: %s' % (assign, got))
        c = 'Frame / %s included under the same condition in all forms' % {
            'metalen': 'metadata length field', 'metadata': 'metadata bytes', 'data': 'data bytes'}[what]
        if problems:
            rep.bad('C02.e', c, base, problems[0], extra={'all': problems[:4]})
        else:
            rep.ok('C02.e', c, base, '%s agree on all %d feasible assignments of %s' % (labels, n, list(PREDS)))
    ok = all(v.get('order_ok', True) for v in forms['write_data_metadata (incremental payload)'].values())
    rep.add('C02.e', 'Frame.write_data_metadata / metadata before data', base.methods['write_data_metadata'], ok,
            'the incremental writer emits metadata, then data' if ok else
            'the incremental writer does not emit metadata before data')
    # size headers
    m = ctx.repo.module('rsocket.frame')
    for fname, want in (('serialize_prefix_with_frame_size_header', 'length'),
                        ('serialize_with_frame_size_header', 'len')):
        fs = m.functions.get(fname)
        if not fs:
            raise AnalysisError('C02.e: %s vanished' % fname)
        f = fs[-1]
        ps = [p for p in ctx.paths(f, None, symbolic_compare=True, stable_attrs=True, inline_depth=1)
              if p.outcome == 'return']
        ok = bool(ps)
        detail = ''
        for p in ps:
            atoms = Atoms()
            out = []
            try:
                lower_bytes_expr(p.value.term, out, atoms, opaque_calls=True)
            except LayoutError as e:
                raise AnalysisError('C02.e: %s: %s' % (fname, e))
            if not out or out[0].kind != 'int' or out[0].nbytes != 3 or len([b for b in out[0].bits if b != 0]) != 24:
                ok, detail = False, 'the size header is not the low three bytes of a 32-bit big-endian integer'
                continue
            src = strip_epoch(out[0].src)
            if want == 'length':
                frame = ('param', f.qualname, f.params()[0])
                if src != ('attr', frame, 'length'):
                    ok, detail = False, 'the size header carries %s, not frame.length' % fmt_term(src)
                # frame.length must be read after the call that defines it
                calls = [e for e in p.events if e.kind == 'call' and e.data.get('name') == 'serialize_frame_prefix']
                packs = [e for e in p.events if e.kind == 'call' and str(e.data.get('name')).endswith('pack')]
                if not calls or not packs or calls[0].seq > packs[0].seq:
                    ok, detail = False, 'frame.length is read before serialize_frame_prefix() has computed it'
            else:
                if not (src[0] == 'pure' and src[1] == 'len'):
                    ok, detail = False, 'the size header carries %s, not the length of the serialized frame' % \
                        fmt_term(src)
            if len(out) < 2:
                ok, detail = False, 'the frame bytes do not follow the size header'
        rep.add('C02.e', '%s / 24-bit length prefix' % fname, f, ok,
                detail or 'low three bytes of the big-endian length, followed by the frame')
    # frame.length as computed by serialize_frame_prefix is prefix length + data/metadata length
    f = base.methods['compute_frame_length']
    ps = [p for p in ctx.paths(f, T, stable_attrs=True, inline_depth=1) if p.outcome == 'return']
    ok = bool(ps)
    for p in ps:
        names = [e.data.get('name') for e in p.events if e.kind == 'call' and e.data.get('how') != 'external']
        if sorted(names) != ['_compute_data_metadata_length', '_compute_frame_prefix_length']:
            ok = False
        t = strip_epoch(p.value.term)
        if not (t[0] == 'op' and t[1] == 'Add'):
            ok = False
    rep.add('C02.e', 'Frame.compute_frame_length / prefix + payload', f, ok,
            'the announced length is the sum of the prefix length and the data/metadata length' if ok else
            'the announced frame length is not prefix length + data/metadata length')
    # ... and serialize_frame_prefix recomputes it on every encode: a frame object is encoded more than once (decoded
    # and relayed, reassembled from fragments, reused), and the incremental writer announces frame.length
    sp = base.methods['serialize_frame_prefix']
    ps = [p for p in ctx.paths(sp, T, stable_attrs=True, inline_depth=0) if p.outcome == 'return']
    ok = bool(ps)
    detail = ''
    for p in ps:
        st = [e for e in p.events if e.kind == 'store' and e.data['target'][0] == 'attr' and
              strip_epoch(e.data['target'][1]) == ('self',) and e.data['target'][2] == 'length']
        if len(st) != 1:
            ok, detail = False, ('a path of serialize_frame_prefix stores self.length %d times: the length announced '
                                 'by the incremental writer can be left over from an earlier encode or decode' % len(st))
            continue
        t = strip_epoch(st[0].data['value'].term)
        good = (t[0] == 'call' and t[1] == 'compute_frame_length') or (
            t[0] == 'op' and t[1] == 'Add' and 'prefix' in repr(t) and '_compute_data_metadata_length' in repr(t))
        if not good:
            ok, detail = False, 'self.length is set to %s, not to the computed frame length' % fmt_term(t)
    rep.add('C02.e', 'Frame.serialize_frame_prefix / length recomputed on every encode', sp, ok,
            detail or 'self.length = compute_frame_length(middle) on all %d paths' % len(ps))


def _blank_status(p, attr):
    """True: the path established that self.<attr> is None or empty; False: that it is neither; None: untested."""
    target = ('attr', ('self',), attr)
    is_none = len0 = None
    for e in p.events:
        if e.kind != 'cond' or e.data.get('static'):
            continue
        k = strip_epoch(e.data['key'])
        v = e.data['value']
        if k[0] == 'isnone' and k[1] == target:
            is_none = v if is_none is None else is_none
        elif k[0] == 'truth' and isinstance(k[1], tuple) and k[1][0] == 'cmp':
            c = k[1]
            if c[1] in ('Is', 'IsNot') and target in c[2:] and ('const', None) in c[2:]:
                val = v if c[1] == 'Is' else not v
                is_none = val if is_none is None else is_none
            elif c[1] in ('Eq', 'NotEq') and ('const', 0) in c[2:] and any(
                    isinstance(x, tuple) and x and x[0] == 'pure' and x[1] == 'len' and target in x[3] for x in c[2:]):
                val = v if c[1] == 'Eq' else not v
                len0 = val if len0 is None else len0
        elif k[0] == 'eq' and ('const', 0) in k[1:] and any(
                isinstance(x, tuple) and x and x[0] == 'pure' and x[1] == 'len' and target in x[3] for x in k[1:]):
            len0 = v if len0 is None else len0
    if is_none is True or len0 is True:
        return True
    if is_none is False and len0 is False:
        return False
    return None


def rule_f(ctx):
    rep = ctx.report
    fc = frame_classes(ctx)
    T = fc['PAYLOAD']
    for backend in BACKENDS:
        rps = reader_paths(ctx, T, backend)
        nbit = None
        for rconds, items, flags, atoms, p in rps:
            if 'flags_next' in flags:
                nbit = [x for x in _abs_bits(flags['flags_next']) if x is not None][0]
        if nbit is None:
            raise AnalysisError('C02.f: PayloadFrame reader does not restore flags_next')
        wps = writer_paths(ctx, T, backend)
        ok = True
        detail = ''
        n = 0
        for wc, hb, rest, atoms, p in wps:
            content = wc.get('metadata') or wc.get('data')
            blank_data = _blank_status(p, 'data')
            blank_meta = _blank_status(p, 'metadata')
            # truthiness of a bytes value and is_blank() are the same fact: drop contradictory combinations
            contradictory = False
            for truthy, blank in ((wc.get('data'), blank_data), (wc.get('metadata'), blank_meta)):
                if truthy is not None and blank is not None and truthy == blank:
                    contradictory = True
            if contradictory:
                continue
            has_content = (blank_data is False) or (blank_meta is False) or bool(wc.get('data')) or \
                bool(wc.get('metadata'))
            if has_content:
                n += 1
                if hb[nbit] != 1:
                    ok = False
                    detail = 'a payload frame with non-blank %s is written without the next bit' % (
                        'data' if blank_data is False else 'metadata')
        if n == 0:
            raise AnalysisError('C02.f: no writer path of PayloadFrame has content')
        rep.add('C02.f', 'PayloadFrame / content forces the next bit (%s)' % backend, T.lookup(
            'serialize_frame_prefix'), ok, detail or 'next bit written on all %d paths with content' % n)


def rule_g(ctx):
    """The string writer of SETUP (length byte + bytes) accepts every length its length field can carry: a rejecting
    comparison in front of the pack must not be stricter than the format's capacity."""
    from ..layout import struct_fields
    rep = ctx.report
    f = ctx.repo.func('rsocket.frame_helpers:pack_string')
    caps = []
    guards = []
    n_ret = 0
    for p in ctx.paths(f, None, symbolic_compare=False, stable_attrs=True):
        for e in p.events:
            if e.kind == 'call' and str(e.data.get('name')).endswith('struct.pack') and e.data.get('args') and \
                    e.data['args'][0].is_const():
                for (fo, w, signed), a in zip(struct_fields(e.data['args'][0].const), e.data['args'][1:]):
                    caps.append(((1 << (8 * w - (1 if signed else 0))) - 1, strip_epoch(a.term)))
        if p.outcome == 'return':
            n_ret += 1
        if p.outcome == 'raise':
            # the last comparison of a length with a constant decides the rejection
            for c in reversed([c for c in p.events if c.kind == 'cond']):
                k = strip_epoch(c.data['key'])
                if k[0] in ('lt', 'le', 'gt', 'ge') and len(k) >= 3:
                    a, b = k[1], k[2]
                    v = c.data['value']
                    lo = None  # smallest rejected value
                    if a[0] == 'const' and isinstance(a[1], int):  # const OP len
                        if k[0] == 'lt':
                            lo = a[1] + 1 if v else None
                        elif k[0] == 'le':
                            lo = a[1] if v else None
                    elif b[0] == 'const' and isinstance(b[1], int):  # len OP const
                        if k[0] == 'gt':
                            lo = b[1] + 1 if v else None
                        elif k[0] == 'ge':
                            lo = b[1] if v else None
                        elif k[0] == 'lt':
                            lo = b[1] if not v else None
                        elif k[0] == 'le':
                            lo = b[1] + 1 if not v else None
                    if lo is not None:
                        guards.append((lo, c))
                    break
    if not caps or n_ret == 0:
        raise AnalysisError('C02.g: pack_string packs no length')
    cap = min(c for c, _ in caps)
    bad = [(lo, c) for lo, c in guards if lo <= cap]
    rep.add('C02.g', 'pack_string / accepts every length the length byte can carry', f, not bad,
            'no rejecting comparison below the capacity of the length field (%d)' % cap if not bad else
            'lengths from %d are rejected although the length field carries up to %d: a frame with a legal %d-byte '
            'string cannot be encoded' % (bad[0][0], cap, cap))


def rule_tcp_writer(ctx):
    """The byte-stream transport writes the incremental form completely: on every normally returning path of
    TransportTCP's send_frame (through serialize_partial) the stream writer gets the size-prefixed frame prefix of the
    frame it was given, then - exactly once - the frame's metadata and data through write_data_metadata, and nothing
    else in between."""
    rep = ctx.report
    k = ctx.repo.cls('rsocket.transports.tcp:TransportTCP')
    f = k.lookup('send_frame')
    if f is None:
        raise AnalysisError('C02.e: TransportTCP.send_frame vanished')
    fp = ('param', f.qualname, f.params()[1])
    ps = [p for p in ctx.paths(f, k, inline_depth=2, no_inline={'serialize_prefix_with_frame_size_header',
                                                                  'write_data_metadata', 'wrap_transport_exception'})
          if p.outcome == 'return']
    ok, detail = bool(ps), ''
    for p in ps:
        seq = []
        for e in p.events:
            if e.kind != 'call':
                continue
            name = e.data.get('name')
            args = [strip_epoch(a.term) for a in e.data.get('args', [])]
            if name == 'write' and args:
                a = args[0]
                if a[0] == 'call' and a[1] == 'serialize_prefix_with_frame_size_header' and a[2] and \
                        strip_epoch(a[2][0]) == fp:
                    seq.append('prefix')
                else:
                    seq.append('other write')
            elif name == 'write_data_metadata':
                recv = e.data.get('recv')
                arg_ok = args and args[0][0] in ('attr', 'bound', 'method') and 'write' in repr(args[0])
                if recv is not None and strip_epoch(recv.term) == fp and arg_ok:
                    seq.append('payload')
                else:
                    seq.append('payload of something else')
        if seq != ['prefix', 'payload']:
            ok, detail = False, 'the writer receives %s instead of the size-prefixed prefix followed by the payload ' \
                                'of the frame' % (seq or 'nothing')
    rep.add('C02.e', 'TransportTCP.send_frame / incremental form written completely, in order', f, ok,
            detail or 'writer.write(serialize_prefix_with_frame_size_header(frame)); '
                      'frame.write_data_metadata(writer.write) on %d paths' % len(ps))


def rule_decoder_entry(ctx, rule='C02.h'):
    """C02.h  The decoder's entry point hands back the frame it decoded.  parse_or_ignore: a buffer is refused as too
    short exactly when it is shorter than the 6-byte header (a CANCEL frame is 6 bytes); otherwise the header is parsed
    from offset 0 of the buffer, the frame object is built from the registry entry of the header's frame type, its
    parse() is given the whole buffer from offset 0, and that object is returned unless is_frame_to_ignore says so; a
    failure of parse() is CONNECTION_ERROR unless the header carries the ignore flag.  is_frame_to_ignore is true only
    for a METADATA_PUSH on a stream other than 0."""
    rep = ctx.report
    repo = ctx.repo
    g = repo.func('rsocket.frame:parse_or_ignore')
    ig = repo.func('rsocket.frame:is_frame_to_ignore')
    if g is None or ig is None:
        raise AnalysisError('%s: parse_or_ignore / is_frame_to_ignore vanished' % rule)
    m = repo.module('rsocket.frame')
    hl = m.assigns.get('HEADER_LENGTH')
    if not hl or not isinstance(hl[-1], ast.Constant):
        raise AnalysisError('%s: HEADER_LENGTH is not a constant' % rule)
    header_length = hl[-1].value
    buf = ('param', g.qualname, g.params()[0])
    ln = ('pure', 'len', None, (buf,), 0, 0)
    ps = ctx.paths(g, None, inline_depth=0, exc=('app',), symbolic_compare=True)
    ok, detail = bool(ps), ''
    n_ret_frame = n_short = n_conn = n_none = 0
    for p in ps:
        # the too-short test
        thr = None
        short = None
        for e in p.events:
            if e.kind != 'cond':
                continue
            k = strip_epoch(e.data['key'])
            if len(k) == 3 and ln in (k[1], k[2]):
                other = k[2] if k[1] == ln else k[1]
                if other[0] != 'const':
                    continue
                c = other[1]
                left = k[1] == ln
                t = {('lt', True): c, ('le', True): c + 1, ('gt', False): c, ('ge', False): c + 1}.get((k[0], left))
                if t is not None:
                    thr, short = t, bool(e.data['value'])
                else:
                    t = {('ge', True): c, ('gt', True): c + 1, ('le', False): c, ('lt', False): c + 1}.get((k[0], left))
                    if t is not None:
                        thr, short = t, not bool(e.data['value'])
                break
        if thr is None:
            ok, detail = False, 'a path does not compare the buffer length with the header size'
            continue
        if thr != header_length:
            ok, detail = False, ('a buffer is refused as too short when it has fewer than %d bytes; the header - and a '
                                 'whole CANCEL frame - is %d bytes' % (thr, header_length))
            continue
        if short:
            n_short += 1
            if p.outcome != 'raise' or 'ParseError' not in repr(strip_epoch(p.value.term)):
                ok, detail = False, 'a buffer shorter than the header does not raise ParseError'
            continue
        # header parsed from offset 0 of the buffer
        hp = [e for e in p.events if e.kind == 'call' and str(e.data.get('name', '')).endswith('parse_header')]
        if len(hp) != 1 or [strip_epoch(a.term) for a in hp[0].data['args']][1:] != [buf, ('const', 0)]:
            ok, detail = False, 'the header is not parsed from offset 0 of the buffer'
            continue
        header = strip_epoch(hp[0].data['args'][0].term)
        # the frame object: registry[header.frame_type]()
        ctor = [e for e in p.events if e.kind == 'call' and isinstance(e.node, ast.Call) and
                isinstance(e.node.func, ast.Subscript)]
        if len(ctor) != 1:
            ok, detail = False, 'the frame object is not built from a registry entry'
            continue
        sub = ctor[0].node.func
        key_ok = isinstance(sub.slice, ast.Attribute) and sub.slice.attr == 'frame_type'
        table_ok = isinstance(sub.value, ast.Name) and isinstance((m.assigns.get(sub.value.id) or [None])[-1], ast.Dict)
        if not key_ok or not table_ok:
            ok, detail = False, 'the frame class is %s, not the registry entry of the header\'s frame type' % \
                ast.unparse(sub)
            continue
        frame = strip_epoch(ctor[0].data['value'].term)
        pc = [e for e in p.events if e.kind == 'call' and e.data.get('name') == 'parse' and e.seq > ctor[0].seq]
        if len(pc) != 1 or [strip_epoch(a.term) for a in pc[0].data['args']] != [buf, ('const', 0)] or \
                strip_epoch(pc[0].data['recv'].term) != frame:
            ok, detail = False, 'the frame\'s parse() is not given the whole buffer from offset 0'
            continue
        failed = any(e.kind == 'except' for e in p.events)
        if failed:
            ign = [e for e in p.events if e.kind == 'cond' and strip_epoch(e.data['key']) ==
                   ('truth', ('attr', header, 'flags_ignore'))]
            if not ign:
                ok, detail = False, 'a parse failure is not decided by the header\'s ignore flag'
            elif ign[-1].data['value']:
                n_none += 1
                if p.outcome != 'return' or strip_epoch(p.value.term) != ('const', None):
                    ok, detail = False, 'an undecodable frame with the ignore flag is not dropped'
            else:
                n_conn += 1
                if p.outcome != 'raise' or 'CONNECTION_ERROR' not in repr([
                        [strip_epoch(a.term) for a in e.data['args']] for e in p.events if e.kind == 'new']):
                    ok, detail = False, 'an undecodable frame without the ignore flag is not a CONNECTION_ERROR'
            continue
        dec = [e for e in p.events if e.kind == 'cond' and 'is_frame_to_ignore' in repr(strip_epoch(e.data['key']))]
        ignore = None
        if dec:
            k = strip_epoch(dec[-1].data['key'])
            ignore = bool(dec[-1].data['value']) if k[0] == 'truth' else None
            if k[0] == 'not':
                ignore = not bool(dec[-1].data['value'])
        if ignore is None:
            ok, detail = False, 'a decoded frame is returned or dropped without asking is_frame_to_ignore'
            continue
        if p.outcome != 'return':
            ok, detail = False, 'a decoded frame makes the decoder raise'
        elif ignore:
            if strip_epoch(p.value.term) != ('const', None):
                ok, detail = False, 'a frame to ignore is handed on'
        else:
            n_ret_frame += 1
            if strip_epoch(p.value.term) != frame:
                ok, detail = False, 'a decoded frame that is not to be ignored is not what the decoder returns (%s)' % \
                    fmt_term(strip_epoch(p.value.term))
    if ok and not (n_ret_frame and n_short and n_conn and n_none):
        ok, detail = False, 'missing case (decoded %d, short %d, connection error %d, ignored %d)' % (
            n_ret_frame, n_short, n_conn, n_none)
    rep.add(rule, 'parse_or_ignore / short < header size, registry[type](), parse(buffer, 0), the frame handed back', g,
            ok, detail or 'threshold %d = HEADER_LENGTH; %d paths' % (header_length, len(ps)))
    # is_frame_to_ignore
    fr = ('param', ig.qualname, ig.params()[0])
    ps = ctx.paths(ig, None, inline_depth=0, symbolic_compare=True)
    ok, detail = bool(ps), ''
    n_true = 0
    for p in ps:
        if p.outcome != 'return' or not p.value.is_const():
            ok, detail = False, 'is_frame_to_ignore does not return a constant on a path'
            continue
        facts = {}
        for e in p.events:
            if e.kind == 'cond':
                k = strip_epoch(e.data['key'])
                if k[0] == 'isinstance' and k[1] == fr:
                    facts['push'] = bool(e.data['value']) if any('MetadataPushFrame' in str(c) for c in k[2]) else None
                elif k[0] in ('eq', 'ne') and ('attr', fr, 'stream_id') in k[1:3] and ('const', 0) in k[1:3]:
                    facts['zero'] = bool(e.data['value']) if k[0] == 'eq' else not bool(e.data['value'])
        if p.value.const is True:
            n_true += 1
            if facts.get('push') is not True or facts.get('zero') is not False:
                ok, detail = False, 'a frame is ignored although it is not a METADATA_PUSH on a stream other than 0'
        elif facts.get('push') is True and facts.get('zero') is False:
            ok, detail = False, 'a METADATA_PUSH on a stream other than 0 is handed on'
    rep.add(rule, 'is_frame_to_ignore / only METADATA_PUSH on a stream other than 0', ig, ok and n_true > 0,
            detail or '%d paths' % len(ps))



def rule_signedness(ctx):
    """(shared C18.l)  Every frame field is read with the signedness it is written with: time-to-live, request counts,
    lengths and positions are unsigned on the wire (rules/c18.py)."""
    from .c18 import rule_signedness as rs
    rs(ctx)



def rule_byte_order(ctx):
    """C02.i  Every multi-byte field is packed and unpacked big-endian, explicitly: each struct format in the library
    (struct.pack / unpack / pack_into / unpack_from / iter_unpack / calcsize / struct.Struct) that contains a field
    wider than one byte starts with '>' or '!'.  A format without a prefix is native byte order and native alignment:
    on a little-endian host the bytes are reversed, and only on the code path that uses it - the fallback backend, one
    frame type - so a round trip through the same backend still passes."""
    rep = ctx.report
    n = 0
    bad = []
    for f in ctx.repo.all_functions():
        if not f.module.name.startswith('rsocket.') or f.module.name.startswith('rsocket.cli'):
            continue
        for x in walk_local(f.node):
            if isinstance(x, ast.Call) and isinstance(x.func, ast.Attribute) and isinstance(x.func.value, ast.Name) and \
                    x.func.value.id == 'struct' and x.args and isinstance(x.args[0], ast.Constant) and \
                    isinstance(x.args[0].value, str):
                n += 1
                _check_format(x.args[0].value, f, x, bad)
    # module-level struct.Struct(...) objects
    for m in ctx.repo.modules.values():
        if not m.name.startswith('rsocket.') or m.name.startswith('rsocket.cli'):
            continue
        for x in ast.walk(m.tree):
            if isinstance(x, ast.Call) and isinstance(x.func, ast.Attribute) and x.func.attr == 'Struct' and \
                    isinstance(x.func.value, ast.Name) and x.func.value.id == 'struct' and x.args and \
                    isinstance(x.args[0], ast.Constant) and isinstance(x.args[0].value, str):
                n += 1
                _check_format(x.args[0].value, m, x, bad)
    rep.require('C02.i', 'struct formats in the library', n, 25)
    for where, node, fmt, why in bad:
        rep.bad('C02.i', '%s / struct format %r' % (getattr(where, 'qualname', getattr(where, 'name', '?')).split(':')[-1],
                                                   fmt),
                where if hasattr(where, 'node') else (where.relpath, node.lineno), why)
    if not bad:
        rep.ok('C02.i', 'struct formats / multi-byte fields are explicitly big-endian',
               ctx.repo.func('rsocket.frame:parse_or_ignore'), '%d formats' % n)


def _check_format(fmt, where, node, bad):
    import struct as _struct
    body = fmt[1:] if fmt[:1] in '<>!=@' else fmt
    wide = False
    for cnt, ch in re.findall(r'(\d*)([a-zA-Z?])', body):
        if ch in 'sp':
            continue
        try:
            if _struct.calcsize('>' + ch) > 1:
                wide = True
        except _struct.error:
            pass
    if wide and fmt[:1] not in ('>', '!'):
        bad.append((where, node, fmt,
                    'a field wider than one byte is packed with %s byte order: on a little-endian host its bytes are '
                    'reversed on the wire' % ('little-endian' if fmt[:1] == '<' else 'native')))




def rule_decoders_do_not_reject_values(ctx):
    """C02.j  Every value a field can hold is decodable.  The property quantifies over every frame value; a parse
    method that raises when a decoded field has a particular value (a LEASE that grants 0 requests or lasts 0 ms, a
    request-n of 0, ...) turns a frame the peer is entitled to send into an invalid-frame marker that the receive loop
    ignores - for LEASE that means the previous lease stays in force after it was withdrawn.  In the parse methods of
    the frame classes (and parse_header_*), an explicit `raise` may depend on lengths of the buffer only: the tests
    that guard it mention nothing but len(...), offsets and constants - not `self.<field>` or a value taken from the
    buffer."""
    rep = ctx.report
    repo = ctx.repo
    m = repo.module('rsocket.frame')
    if m is None:
        raise AnalysisError('C02.j: rsocket.frame vanished')
    fns = []
    for k in m.classes.values():
        for k2 in (k if isinstance(k, list) else [k]):
            for name, f in k2.methods.items():
                if name.startswith('parse'):
                    fns.append(f)
    for name, lst in m.functions.items():
        if name.startswith('parse_header'):
            fns.append(lst[-1])
    rep.require('C02.j', 'parse methods of frame classes', len(fns), 16)
    bad = []
    for f in fns:
        parents = {}
        for x in ast.walk(f.node):
            for c in ast.iter_child_nodes(x):
                parents[c] = x
        for r in walk_local(f.node):
            if not isinstance(r, ast.Raise) or r.exc is None:
                continue
            tests = []
            x = r
            while x in parents:
                p = parents[x]
                if isinstance(p, (ast.If, ast.While)) and x is not p.test:
                    tests.append(p.test)
                if isinstance(p, ast.ExceptHandler):
                    tests = None  # re-wrapping an exception that is already under way
                    break
                x = p
            if tests is None:
                continue

            def structural(t):
                """only len(...), names containing 'offset' / 'length' / 'size', constants and operators"""
                for n in ast.walk(t):
                    if isinstance(n, ast.Attribute):
                        return False
                    if isinstance(n, ast.Name) and n.id not in ('len', 'buffer') and \
                            not any(w in n.id.lower() for w in ('offset', 'length', 'size', 'header')):
                        return False
                return True

            if not tests or not all(structural(t) for t in tests):
                bad.append((f, r, tests))
    for f, r, tests in bad:
        rep.bad('C02.j', '%s / raise at line %d' % (f.short, r.lineno), f,
                'the decoder rejects a frame because of the value of a field (%s): such a frame becomes an invalid-frame '
                'marker and is ignored' % (ast.unparse(tests[0])[:80] if tests else 'unconditionally'))
    if not bad:
        rep.ok('C02.j', 'frame decoders / no field value is rejected', m, '%d parse methods, explicit raises depend on '
               'buffer lengths only' % len(fns))



RULES = [('C02.a', rule_a), ('C02.b', rule_b), ('C02.b', rule_b2), ('C02.c', rule_c), ('C02.d', rule_d), ('C02.e', rule_e),
         ('C02.f', rule_f), ('C02.g', rule_g), ('C02.e', rule_tcp_writer), ('C02.h', rule_decoder_entry), ('C18.l', rule_signedness), ('C02.i', rule_byte_order), ('C02.j', rule_decoders_do_not_reject_values)]
