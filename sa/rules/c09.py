"""C09 Cancellation stops the stream at both ends."""
import ast

from .. import AnalysisError
from ..effects import is_cancel_call, strip_epoch, is_spawn
from ..index import walk_local, ClassInfo
from ..interp import fmt_term
from . import COMMON_ASSUMPTIONS
from .handlers import model, H_TERM
from .c07 import check_guarded_resolve, init_bools, rule_b as c07b

EXPLANATION = (
    'Decides: (a) every requester cancel() path enqueues exactly one CANCEL and removes (or, for a channel, marks) '
    'the stream, and the response-future callback sends CANCEL exactly when the future was cancelled while pending; '
    '(b) in every responder the CANCEL branch has "cancel the producer" (subscription.cancel()/future.cancel()) and '
    'the removal as must-effects, or shows on that path that there is no producer; (c) definite assignment at '
    'attribute granularity for every Subscription implementation of the library: each attribute read by '
    'cancel()/request()/dispose() (through self-calls) is assigned by __init__ or by the synchronous part of '
    'subscribe() - reactive-streams allows cancel() immediately after on_subscribe, before any task body has run; '
    '(d) the generator publisher\'s cancel() kills both feeder tasks, closes the generator and calls on_cancel on '
    'every path unless that path shows the resource is None; (e) the sender resolves sent futures only under a '
    'done() test (a cancelled awaitable must not kill the one sender task); (f) nothing is signalled after the '
    'terminal signal (shared with C07.b); (g) every dereference of the optional local subscription of a channel is '
    'dominated by a None test. Not decided: "production stops" as an observable over time.')
EXPLANATION_ADDED = ("(h) request_response registers the requester's cancel callback on the very future it returns; a CANCEL is never inserted at the head of the send queue (shared C05.b); disposing an Rx observable cancels the stream behind it (shared C20.d). (j) an async-generator adapter over a library stream (the GraphQL transport) cancels its subscription when the generator is closed: every yield sits in a try whose GeneratorExit handler or finally calls cancel() on the subscriber it subscribed.")
EXPLANATION = EXPLANATION.replace(' Not decided', ' ' + EXPLANATION_ADDED + ' Not decided', 1) \
    if ' Not decided' in EXPLANATION else EXPLANATION + ' ' + EXPLANATION_ADDED
ASSUMPTIONS = COMMON_ASSUMPTIONS


def rule_a(ctx):
    rep = ctx.report
    m = model(ctx)
    n = 0
    for h in m.handlers:
        inter, role = m.role(h)
        if role != 'requester':
            continue
        pre0 = init_bools(ctx, m, h)
        for en in m.entries(h):
            if en.kind != 'method' or en.func.name != 'cancel':
                continue
            n += 1
            ok = True
            detail = ''
            paths = [p for p in m.run(en, pre0) if p.outcome == 'return']
            for p in paths:
                cancels = [x for x in m.emitted(p) if x[0] == 'CancelFrame']
                others = [x for x in m.emitted(p) if x[0] != 'CancelFrame']
                if len(cancels) != 1:
                    ok, detail = False, '%d CANCEL frames enqueued on a cancel() path' % len(cancels)
                elif others:
                    ok, detail = False, 'cancel() also enqueues %s' % others[0][0]
                elif inter != 'channel' and not m.finished(p):
                    ok, detail = False, 'cancel() leaves the stream registered'
                elif inter == 'channel' and not m.finished(p) and not any(
                        v is True for v in m.post_state(p).values()):
                    ok, detail = False, 'cancel() neither removes the stream nor marks a direction closed'
            rep.add('C09.a', '%s / one CANCEL then drop' % en.name, en.func, ok,
                    detail or 'exactly one CANCEL and the stream is removed/marked on all %d paths' % len(paths))
    rep.require('C09.a', 'requester cancel() methods', n, 3)
    # the response future's done-callback
    for h in m.handlers:
        if m.role(h) != ('response', 'requester'):
            continue
        cbs = [en for en in m.entries(h) if en.kind == 'method' and en.func.name in m._registered_callbacks(h)]
        if not cbs:
            raise AnalysisError('C09.a: %s registers no done-callback' % h.name)
        for en in cbs:
            for pre in ({}, ):
                ok = True
                detail = ''
                n_c = 0
                for p in m.run(en, pre):
                    cancelled = None
                    for e in p.events:
                        if e.kind == 'cond':
                            k = e.data['key']
                            if k[0] == 'truth' and isinstance(k[1], tuple) and k[1][0] == 'pure' and \
                                    k[1][1] == 'cancelled':
                                cancelled = e.data['value']
                    cancels = [x for x in m.emitted(p) if x[0] == 'CancelFrame']
                    if cancelled is None:
                        ok, detail = False, 'a path does not test cancelled()'
                    elif cancelled is False and cancels:
                        ok, detail = False, 'CANCEL sent although the future was not cancelled'
                    elif cancelled and len(cancels) > 1:
                        ok, detail = False, 'more than one CANCEL'
                    elif cancelled and cancels:
                        n_c += 1
                        if not m.finished(p):
                            ok, detail = False, 'CANCEL sent but stream left registered'
                if n_c == 0:
                    ok, detail = False, 'no path sends CANCEL when the future was cancelled'
                rep.add('C09.a', '%s / CANCEL iff cancelled while pending' % en.name, en.func, ok,
                        detail or 'CANCEL is sent exactly on the paths where cancelled() holds')
    # the callback is really registered on the future handed to the caller (cancelling that future is the
    # application's only way to cancel a request-response)
    base = ctx.slots.RSocketBase
    api = base.methods.get('request_response')
    if api is None:
        raise AnalysisError('C09.a: RSocketBase.request_response vanished')
    ok = True
    detail = ''
    n_ret = 0
    for p in ctx.paths(api, ctx.slots.RSocketClient, inline_depth=3,
                       no_inline={'allocate_stream', 'register_stream', 'send_request'}):
        if p.outcome != 'return':
            continue
        n_ret += 1
        regs = [e for e in p.events if e.kind == 'call' and e.data.get('name') == 'add_done_callback' and
                e.data.get('recv') is not None and e.data['recv'].term == p.value.term]
        if not regs:
            ok, detail = False, 'the future returned to the caller has no done-callback: cancelling it sends no CANCEL'
            continue
        cb = regs[0].data['args'][0].term if regs[0].data.get('args') else None
        if not (cb and cb[0] == 'boundmethod' and cb[1][0] == 'new'):
            ok, detail = False, 'the done-callback is not a method of the requester created for this request'
            continue
        cls = [h for h in m.handlers if h.name == cb[1][2]]
        if not cls or cb[2] not in m._registered_callbacks(cls[0]):
            ok, detail = False, 'the registered callback %s is not the requester\'s cancel callback' % cb[2]
    rep.add('C09.a', 'RSocketBase.request_response / cancel callback registered on the returned future', api,
            ok and n_ret > 0, detail or 'add_done_callback(requester.<cancel callback>) on the returned future on all %d '
                                        'paths' % n_ret)
    # a cancel after the response has terminated the stream sends nothing
    for h in m.handlers:
        if m.role(h) != ('response', 'requester'):
            continue
        for en in m.entries(h):
            if en.kind != 'frame' or m.recv_class(h, en) != 'whole':
                continue
            for p in m.run(en, {}):
                if p.outcome != 'return':
                    continue
                post = m.post_state(p)
                for cb in [x for x in m.entries(h) if x.kind == 'method' and x.func.name in m._registered_callbacks(h)]:
                    late = [x for q in m.run(cb, post) for x in m.emitted(q)]
                    rep.add('C09.a', '%s then %s / no CANCEL after the terminal frame' % (en.name, cb.name), cb.func,
                            not late, 'the deferred done-callback sends nothing once a terminal frame was handled'
                            if not late else 'after the response the deferred callback still enqueues %s' % late[0][0])
                break


def rule_b(ctx):
    rep = ctx.report
    m = model(ctx)
    n = 0
    for h in m.handlers:
        inter, role = m.role(h)
        if role != 'responder':
            continue
        pre0 = init_bools(ctx, m, h)
        for en in m.entries(h):
            if en.kind != 'frame' or en.frame_cls.name != 'CancelFrame':
                continue
            n += 1
            ok = True
            detail = ''
            paths = [p for p in m.run(en, pre0) if p.outcome == 'return']
            if not paths:
                raise AnalysisError('C09.b: no normal path for %s' % en.name)
            for p in paths:
                cancelled = m.producer_cancelled(p)
                none_shown = any(e.kind == 'cond' and e.data['key'][0] == 'isnone' and e.data['value'] is True and
                                 'subscription' in repr(e.data['key']) for e in p.events)
                if not cancelled and not none_shown:
                    ok, detail = False, 'a CANCEL path neither cancels the producer nor shows there is none'
                if inter != 'channel' and not m.finished(p):
                    ok, detail = False, 'a CANCEL path leaves the stream registered'
                if inter == 'channel' and not m.finished(p) and not any(v is True for v in m.post_state(p).values()):
                    ok, detail = False, 'a CANCEL path neither removes the stream nor marks a direction closed'
            rep.add('C09.b', '%s / producer cancelled and stream dropped' % en.name, en.func, ok,
                    detail or 'producer cancelled (or absent) and stream removed/marked on all %d paths' % len(paths))
    rep.require('C09.b', 'responder CANCEL branches', n, 3)


def _self_reads(f, selfname='self'):
    out = []
    for n in walk_local(f.node):
        if isinstance(n, ast.Attribute) and isinstance(n.ctx, ast.Load) and isinstance(n.value, ast.Name) and \
                n.value.id == selfname:
            out.append(n)
    return out


def _self_stores(f, selfname='self'):
    out = set()
    for n in walk_local(f.node):
        if isinstance(n, ast.Attribute) and isinstance(n.ctx, ast.Store) and isinstance(n.value, ast.Name) and \
                n.value.id == selfname:
            out.add(n.attr)
    return out


def _self_calls(f, selfname='self'):
    out = []
    for n in walk_local(f.node):
        if isinstance(n, ast.Call) and isinstance(n.func, ast.Attribute):
            v = n.func.value
            if isinstance(v, ast.Name) and v.id == selfname:
                out.append((n.func.attr, n))
            elif isinstance(v, ast.Call) and isinstance(v.func, ast.Name) and v.func.id == 'super':
                out.append(('super:' + n.func.attr, n))
    return out


def _sync_closure(cls: ClassInfo, start_names, include_async=False):
    """Methods reachable through synchronous self-calls from the named methods (resolved on cls)."""
    seen = []
    work = []
    for nm in start_names:
        for k in cls.mro():
            if nm in k.methods:
                work.append((k.methods[nm], k))
                if nm != '__init__':
                    break
    while work:
        f, k = work.pop()
        if f in seen:
            continue
        if f.is_async and not include_async:
            continue
        seen.append(f)
        for name, node in _self_calls(f):
            if name.startswith('super:'):
                t = cls.lookup_after(k, name[6:])
                if t is not None:
                    work.append((t, t.cls))
            else:
                t = cls.lookup(name)
                if t is not None:
                    work.append((t, t.cls))
    return seen


def rule_c(ctx):
    rep = ctx.report
    slots = ctx.slots
    subjects = []
    for c in ctx.repo.all_classes():
        if not c.module.name.startswith('rsocket') or c.module.name.startswith('rsocket.cli'):
            continue
        if c.is_subclass_of(slots.Subscription) and c.lookup('cancel') is not None and not ctx.repo.is_abstract(c):
            subjects.append(c)
    rep.require('C09.c', 'Subscription implementations', len(subjects), 10)
    for c in sorted(subjects, key=lambda x: x.qualname):
        assigned = set()
        for f in _sync_closure(c, ['__init__', 'subscribe']):
            assigned |= _self_stores(f)
        # constructors of all bases
        for k in c.mro():
            if '__init__' in k.methods:
                for f in _sync_closure(c, []) + [k.methods['__init__']]:
                    assigned |= _self_stores(f)
        known = set(assigned)
        for k in c.mro():
            known |= set(k.methods) | set(k.class_attrs) | set(k.setters)
        known |= {'__class__', '__dict__'}
        for entry in ('cancel', 'request', 'dispose'):
            if c.lookup(entry) is None:
                continue
            bad = []
            for f in _sync_closure(c, [entry]):
                for n in _self_reads(f):
                    if n.attr not in known:
                        bad.append((f, n))
            construct = '%s.%s / reads only state set by __init__ or subscribe' % (c.name, entry)
            if bad:
                f, n = bad[0]
                rep.bad('C09.c', construct, (f.file, n.lineno),
                        'reads self.%s, which is first assigned inside a task body (not by __init__ or the '
                        'synchronous part of subscribe); %s() right after on_subscribe raises AttributeError' % (
                            n.attr, entry), extra={'attributes': sorted({x.attr for _, x in bad})})
            else:
                rep.ok('C09.c', construct, c.lookup(entry), 'all attributes read are definitely assigned')


def rule_d(ctx):
    rep = ctx.report
    c = ctx.repo.cls('rsocket.streams.stream_from_generator:StreamFromGenerator')
    sub = ctx.repo.concrete_subclasses(c)
    rep.require('C09.d', 'generator publisher classes', len(sub), 2)
    # resources: task attributes (assigned from create_task), the generator (assigned from calling the stored
    # factory), the on_cancel callback (constructor parameter of that name)
    tasks = set()
    gen = set()
    factory_attr = None
    init = c.methods.get('__init__')
    if init is None:
        raise AnalysisError('C09.d: StreamFromGenerator.__init__ vanished')
    cancel_attr = None
    for n in walk_local(init.node):
        if isinstance(n, ast.Assign) and isinstance(n.value, ast.Name) and isinstance(n.targets[0], ast.Attribute):
            if n.value.id == 'generator':
                factory_attr = n.targets[0].attr
            if n.value.id == 'on_cancel':
                cancel_attr = n.targets[0].attr
    for k in [c] + ctx.repo.subclasses(c):
        for f in k.methods.values():
            for n in walk_local(f.node):
                if isinstance(n, (ast.Assign, ast.AnnAssign)) and n.value is not None and isinstance(n.value, ast.Call):
                    t = n.targets[0] if isinstance(n, ast.Assign) else n.target
                    if not (isinstance(t, ast.Attribute) and isinstance(t.value, ast.Name) and t.value.id == 'self'):
                        continue
                    fn = n.value.func
                    if isinstance(fn, ast.Attribute) and fn.attr == 'create_task':
                        tasks.add(t.attr)
                    if isinstance(fn, ast.Attribute) and isinstance(fn.value, ast.Name) and fn.value.id == 'self' and \
                            fn.attr == factory_attr:
                        gen.add(t.attr)
    if len(tasks) < 2 or len(gen) != 1 or cancel_attr is None:
        raise AnalysisError('C09.d: cannot identify the resources of StreamFromGenerator (tasks %s, generator %s, '
                            'on_cancel %s)' % (tasks, gen, cancel_attr))
    resources = [(t, 'cancel') for t in sorted(tasks)] + [(g, ('close', 'aclose')) for g in gen] + [(cancel_attr, None)]
    for k in sub:
        f = k.lookup('cancel')
        paths = [p for p in ctx.paths(f, k) if p.outcome == 'return']
        if not paths:
            raise AnalysisError('C09.d: %s.cancel has no normal path' % k.name)
        for attr, how in resources:
            ok = True
            for p in paths:
                released = False
                for e in p.events:
                    if e.kind == 'call':
                        r = e.data.get('recv')
                        if how is None:
                            # call of the stored callback itself: self._on_cancel()
                            if e.data.get('name') == attr and r is not None and r.term == ('self',):
                                released = True
                        elif r is not None and r.term[0] == 'attr' and r.term[2] == attr and \
                                e.data.get('name') in (how if isinstance(how, tuple) else (how,)):
                            released = True
                    elif e.kind == 'cond' and e.data['key'][0] == 'isnone' and e.data['value'] is True:
                        t = e.data['key'][1]
                        if t[0] == 'attr' and t[2] == attr:
                            released = True
                if not released:
                    ok = False
            rep.add('C09.d', '%s.cancel / releases %s' % (k.name, attr), f, ok,
                    'released, or shown to be None, on all %d paths' % len(paths) if ok else
                    'a path through cancel() neither releases self.%s nor shows it is None' % attr)


def rule_e(ctx):
    check_guarded_resolve(ctx, 'C09.e', only_module={'rsocket.rsocket_base'})


def rule_g(ctx):
    rep = ctx.report
    m = model(ctx)
    n = 0
    for h in m.handlers:
        inter, role = m.role(h)
        if inter != 'channel':
            continue
        pre0 = init_bools(ctx, m, h)
        for en in m.entries(h):
            if en.kind == 'helper' or not en.is_event:
                continue
            derefs = {}
            for p in m.run(en, pre0):
                for e in p.events:
                    if e.kind != 'call' or e.data.get('recv') is None:
                        continue
                    t = strip_epoch(e.data['recv'].term)
                    if not (t[0] == 'attr' and t[2] == 'subscription' and t[1][0] == 'attr' and t[1][1] == H_TERM):
                        continue
                    guarded = False
                    for c in p.events:
                        if c.seq >= e.seq:
                            break
                        if c.kind == 'cond' and c.data['key'][0] == 'isnone' and c.data['value'] is False:
                            kt = strip_epoch(c.data['key'][1])
                            if kt == t or (kt[0] == 'attr' and kt[1] == H_TERM and 'publisher' in kt[2]):
                                guarded = True
                    key = (e.node.lineno, e.data['name'])
                    derefs[key] = derefs.get(key, True) and guarded
            for (line, name), guarded in sorted(derefs.items()):
                n += 1
                rep.add('C09.g', '%s / subscription.%s dereference' % (en.name, name), (en.func.file, line), guarded,
                        'dominated by a None test of the optional subscription (or of the optional publisher)'
                        if guarded else
                        'the local publisher of a channel is optional; this path calls subscription.%s() without '
                        'testing it for None (AttributeError when the responder returned no publisher)' % name)
    rep.require('C09.g', 'dereferences of the optional channel subscription', n, 4)


def rule_router_future(ctx):
    """CANCEL of a request-response cancels the future the application's route returned: the router hands a Future it
    gets from a route on as it is (a wrapper task would be what gets cancelled - possibly before it ever ran - while the
    route's own future keeps running), and the routing handler returns what the router returned."""
    rep = ctx.report
    router = ctx.repo.cls('rsocket.routing.request_router:RequestRouter')
    f = router.lookup('route')
    if f is None:
        raise AnalysisError('C09.i: RequestRouter.route vanished')
    ok = True
    why = ''
    n_fut = 0
    for p in ctx.paths(f, router, inline_depth=1, no_inline={'_collect_route_arguments', '_get_unknown_route'}):
        if p.outcome != 'return':
            continue
        calls = [e for e in p.events if e.kind == 'call' and e.data.get('awaited') and
                 'method' in str(e.data.get('name'))]
        if not calls:
            continue
        res = ('awaited', strip_epoch(calls[-1].data['value'].term))
        isfut = [x for x in p.events if x.kind == 'cond' and x.data['key'][0] == 'isinstance' and
                 strip_epoch(x.data['key'][1]) in (res, res[1]) and 'Future' in repr(x.data['key'][2])]
        if isfut and isfut[-1].data['value'] is True:
            n_fut += 1
            if strip_epoch(p.value.term) not in (res, res[1]):
                ok, why = False, ('a Future returned by a route is replaced by %s before it reaches the responder: a '
                                  'CANCEL cancels the replacement, not the route\'s future' % fmt_term(
                                      p.value.term)[:70])
    rep.add('C09.i', 'RequestRouter.route / a Future returned by a route is handed on as it is', f, ok and n_fut > 0,
            why or 'on the %d paths where the route returned a Future that very object is returned' % n_fut)
    h = ctx.repo.cls('rsocket.routing.routing_request_handler:RoutingRequestHandler')
    g = h.lookup('request_response')
    ok = False
    for p in ctx.paths(g, h, inline_depth=0, exc=()):
        if p.outcome != 'return':
            continue
        calls = [e for e in p.events if e.kind == 'call' and e.data.get('name') == '_parse_and_route' and
                 e.data.get('awaited')]
        if len(calls) == 1 and strip_epoch(p.value.term) in (('awaited', strip_epoch(calls[0].data['value'].term)),
                                                             strip_epoch(calls[0].data['value'].term)):
            ok = True
    rep.add('C09.i', 'RoutingRequestHandler.request_response / returns what the router returned', g, ok,
            'the routed result is returned unchanged on the normal path' if ok else
            'the routing handler does not return the routed future itself')


def rule_rx(ctx):
    """Disposing an Rx observable cancels the stream behind it (shared C20.d)."""
    from .c20 import rule_d as c20d
    c20d(ctx)


def rule_order(ctx):
    # per-stream FIFO on the wire: a terminal/control frame must not overtake fragments of its own stream
    from .c05 import rule_a as c05a, rule_b as c05b
    c05a(ctx)
    from .c05 import rule_f as c05f_
    c05f_(ctx)
    # ... nor its own request: nothing but connect()'s SETUP is ever inserted at the head of the send queue
    c05b(ctx)


def rule_generator_adapters(ctx):
    """An async-generator adapter that subscribes to a library stream and hands the elements on with `yield` (the
    GraphQL transport's subscribe()) is cancelled by closing the generator: GeneratorExit is raised at the `yield`, so
    every yield must sit inside a try whose GeneratorExit handler (or finally) cancels the subscription it created -
    otherwise no CANCEL is sent and the peer keeps producing."""
    rep = ctx.report
    n = 0
    for fn in ctx.repo.all_functions():
        if not fn.qualname.startswith('rsocket') or not fn.is_async or not fn.has_yield():
            continue
        # a local subscriber handed to <socket>.request_stream/request_channel(...).subscribe(<it>)
        subs = []
        for c in walk_local(fn.node):
            if isinstance(c, ast.Call) and isinstance(c.func, ast.Attribute) and c.func.attr == 'subscribe' and \
                    c.args and isinstance(c.args[0], ast.Name) and \
                    any(x in ast.unparse(c.func.value) for x in ('request_stream', 'request_channel')):
                subs.append(c.args[0].id)
        if not subs:
            continue
        n += 1
        parents = {}
        for a in ast.walk(fn.node):
            for b in ast.iter_child_nodes(a):
                parents[b] = a
        ok, detail = True, ''
        yields = [y for y in walk_local(fn.node) if isinstance(y, (ast.Yield, ast.YieldFrom))]
        for y in yields:
            x = y
            covered = False
            while x in parents:
                par = parents[x]
                if isinstance(par, ast.Try) and any(x is st or x in list(ast.walk(st)) for st in par.body):
                    blocks = list(par.finalbody)
                    for h in par.handlers:
                        t = ast.unparse(h.type) if h.type is not None else 'BaseException'
                        if any(k in t for k in ('GeneratorExit', 'BaseException')):
                            blocks.extend(h.body)
                    for st in blocks:
                        for c in ast.walk(st):
                            if isinstance(c, ast.Call) and isinstance(c.func, ast.Attribute) and \
                                    c.func.attr == 'cancel' and isinstance(c.func.value, ast.Name) and \
                                    c.func.value.id in subs:
                                covered = True
                if isinstance(par, (ast.FunctionDef, ast.AsyncFunctionDef)):
                    break
                x = par
            if not covered:
                ok, detail = False, ('the yield at line %d is outside any try that cancels %s on GeneratorExit: a '
                                     'consumer that stops early leaves the stream running, no CANCEL is sent' % (
                                         y.lineno, '/'.join(sorted(set(subs)))))
        rep.add('C09.j', '%s / closing the generator cancels the stream' % fn.short, fn, ok and bool(yields),
                detail or 'every yield is inside a try whose GeneratorExit handler cancels the subscriber')
    rep.require('C09.j', 'generator adapters over library streams', n, 1)



def rule_builders_fresh(ctx):
    """C05.h  Every frame builder hands out a frame object of its own: frames wait in the send queue as objects and are
    serialised later, so a shared frame goes out with the fields of the last call (rules/plumbing.py)."""
    from .plumbing import rule_builders_fresh as rb
    rb(ctx, 'C05.h')



def rule_adapter_cancellation(ctx):
    """Cancelling a request made through the awaitable adapter cancels the socket's future: the adapter does not shield it (shared C01.h delegations)."""
    from .awaitable import rule_delegations
    rule_delegations(ctx, 'C01.h')



def rule_response_future_wired(ctx):
    """(shared C01.d)  The CANCEL branch and dispose() of the request-response responder cancel `self.future`: that is
    the handler's own future only if the responder is handed that very object and keeps it - not a task of the
    responder's that wraps it, which, cancelled before its first step, never reaches the handler's future
    (rules/c01.py)."""
    from .c01 import rule_e as c01d
    c01d(ctx)



def rule_credit_handed_on_at_once(ctx):
    """(shared C06.a)  A CANCEL that follows its request in the same read finds a producer that has already been given
    the request's credit - or none at all: the credit of a request frame is handed to Subscription.request while the
    frame is being handled, not in a later loop turn, where it would start a producer that was already cancelled and
    that nothing can stop any more (rules/c06.py)."""
    from .c06 import rule_a as c06a
    c06a(ctx)



def rule_default_subscriber_keeps_its_subscription(ctx):
    """(shared C01.o)  The subscription a DefaultSubscriber holds is the one of the stream it is subscribed to now:
    on_subscribe stores what it is handed on every path.  Applications cancel through `self.subscription.cancel()`; a
    subscriber object that keeps the handle of an earlier, finished stream sends CANCEL for that id and none for the
    live one (rules/c01.py)."""
    from .c01 import rule_default_subscriber
    rule_default_subscriber(ctx)



RULES = [('C09.a', rule_a), ('C09.b', rule_b), ('C09.c', rule_c), ('C09.d', rule_d), ('C09.e', rule_e),
         ('C09.f', c07b), ('C09.g', rule_g), ('C05.a', rule_order), ('C20.d', rule_rx), ('C09.i', rule_router_future), ('C09.j', rule_generator_adapters), ('C05.h', rule_builders_fresh), ('C01.h', rule_adapter_cancellation), ('C01.d', rule_response_future_wired), ('C06.a', rule_credit_handed_on_at_once), ('C01.o', rule_default_subscriber_keeps_its_subscription)]
