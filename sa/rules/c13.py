"""C13 Stream ids: right parity, never zero, never a live id, wrap-around."""
import ast

from .. import AnalysisError
from ..effects import is_register, strip_epoch
from ..index import walk_local
from ..interp import fmt_term, AVal
from . import COMMON_ASSUMPTIONS

EXPLANATION = (
    'Decides, per allocation operation (so for every history of allocations and releases): (a) parity domain - '
    'every store to the id cursor has the parity of the previous cursor (plus an even constant, masked with a '
    'constant whose low bit is 1), the cursor starts from the first-id argument minus an even constant, the first '
    'ids are the literals 1 (client) and 2 (server) and the mask is 2^31-1; (b) on every returning path of the '
    'allocator the returned value is the one the availability test (not 0, not in the table) examined after the '
    'last cursor store, and the loop can only be left when that test succeeded; (c) the attempt bound, evaluated '
    'numerically from the extracted comparison, permits at least (max+1)/step attempts, i.e. allocation fails only '
    'when the whole parity class is in use; (d) every request entry point tests the incoming id against the table '
    'before it registers a handler, and the test raises the REJECTED error without touching the table. '
    'Not decided: nothing essential - the clauses hold per operation.')
EXPLANATION_ADDED = ('(e) a new request is never offered to the stream table before its handle_* method (shared routing rule) and the table is written only after id 0 was refused; (f) the successor of the id cursor visits every id of its parity class: the masked form (cursor + 2) & (2^31-1), or advance-compare-wrap whose largest kept value is the largest id of the class for both parities and whose wrap target is the first id; (g) the allocator object is created by the per-connection reset only, never by stop_all_streams(), which applications call on live connections. (round 15, shared C08.l) a stream requester the peer\'s COMPLETE or ERROR has ended is inert: a late cancel() would release by id whatever request holds that id after wrap-around.')
EXPLANATION = EXPLANATION.replace(' Not decided', ' ' + EXPLANATION_ADDED + ' Not decided', 1) \
    if ' Not decided' in EXPLANATION else EXPLANATION + ' ' + EXPLANATION_ADDED
ASSUMPTIONS = COMMON_ASSUMPTIONS


def parity(term, cur_attr, env=None):
    """XOR-linear parity form of a provenance term: (constant bit, frozenset of opaque atoms) or None (unknown).
    env: attribute name -> constant established by the constructor (immutable attributes only)."""
    t = strip_epoch(term)
    if t[0] == 'const' and isinstance(t[1], int):
        return t[1] & 1, frozenset()
    if env and t[0] == 'attr' and t[2] in env and t[2] != cur_attr and isinstance(env[t[2]], int):
        return env[t[2]] & 1, frozenset()
    if t[0] == 'op':
        op, a, b = t[1], t[2], t[3]
        pa, pb = parity(a, cur_attr, env), parity(b, cur_attr, env)
        if op in ('Add', 'Sub', 'BitXor'):
            if pa is None or pb is None:
                return None
            return pa[0] ^ pb[0], pa[1] ^ pb[1]
        if op == 'BitAnd':
            for x, px, other in ((a, pa, pb), (b, pb, pa)):
                if px is not None and not px[1]:
                    if px[0] == 1:
                        return other  # mask keeps the low bit
                    return 0, frozenset()  # mask clears the low bit
            return None
        if op == 'Mult':
            for px in (pa, pb):
                if px is not None and not px[1] and px[0] == 0:
                    return 0, frozenset()
            return None
        if op == 'LShift':
            return 0, frozenset()
        return None
    if t[0] in ('attr', 'param', 'self', 'free'):
        return 0, frozenset([t])
    return None


def rule_a(ctx):
    rep = ctx.report
    slots = ctx.slots
    sc = slots.StreamControl
    # the cursor attribute: the one allocate_stream returns
    alloc = sc.methods.get('allocate_stream')
    if alloc is None:
        raise AnalysisError('C13.a: StreamControl.allocate_stream vanished')
    ret_attrs = set()
    from ..astutil import returned_exprs
    for v in returned_exprs(alloc.node):
        if isinstance(v, ast.Attribute) and isinstance(v.value, ast.Name):
            ret_attrs.add(v.attr)
    if len(ret_attrs) != 1:
        raise AnalysisError('C13.a: cannot identify the id cursor (allocate_stream returns %s)' % ret_attrs)
    cur = ret_attrs.pop()
    ctx.cache['id_cursor'] = cur
    stores = ctx.repo.attr_assignments(sc, cur)
    rep.require('C13.a', 'stores to the id cursor', len(stores), 2)
    env = {}
    for p in ctx.paths(sc.methods['__init__'], sc):
        for e in p.events:
            if e.kind == 'store' and e.data['target'][0] == 'attr' and e.data['value'].is_const():
                a = e.data['target'][2]
                if all(ff.name == '__init__' for ff, _, _ in ctx.repo.attr_assignments(sc, a)):
                    env[a] = e.data['value'].const
    first_parity_attrs = set()
    init_f = sc.methods['__init__']
    for p in ctx.paths(init_f, sc):
        for e in p.events:
            if e.kind == 'store' and e.data['target'][0] == 'attr' and e.data['target'][2] != cur:
                pp = parity(e.data['value'].term, cur, env)
                if pp is not None and pp[0] == 0 and len(pp[1]) == 1:
                    a0 = strip_epoch(next(iter(pp[1])))
                    if a0[0] == 'param' and a0[2] == init_f.params()[1]:
                        first_parity_attrs.add(e.data['target'][2])
    for f, stmt, value in stores:
        paths = ctx.paths(f, sc)
        ok = True
        detail = ''
        reached = 0
        for p in paths:
            for e in p.events:
                if e.kind == 'store' and e.node is stmt and e.depth == 1:
                    reached += 1
                    par = parity(e.data['value'].term, cur, env)
                    if par is None:
                        ok, detail = False, 'parity of %s is not determined' % fmt_term(e.data['value'].term)
                        continue
                    bit, atoms = par
                    atoms = {strip_epoch(a) for a in atoms}
                    if f.name == '__init__':
                        # derived from the first-id argument (possibly via another attribute set from it)
                        atoms2 = set()
                        for a in atoms:
                            if a[0] == 'attr':
                                # resolve through the init path: attribute stored earlier on this path
                                for s in p.events:
                                    if s.kind == 'store' and s.seq < e.seq and s.data['target'][0] == 'attr' and \
                                            s.data['target'][2] == a[2]:
                                        pp = parity(s.data['value'].term, cur, env)
                                        if pp is not None:
                                            bit ^= pp[0]
                                            atoms2 |= {strip_epoch(x) for x in pp[1]}
                                            break
                                else:
                                    atoms2.add(a)
                            else:
                                atoms2.add(a)
                        good = bit == 0 and len(atoms2) == 1 and next(iter(atoms2))[0] == 'param'
                        if not good:
                            ok, detail = False, 'initial cursor parity is %s + %s, not the parity of the first id' % (
                                bit, sorted(fmt_term(a) for a in atoms2))
                    else:
                        # the previous cursor, or an attribute __init__ gave the parity of the first id (the wrap
                        # target of a compare-and-wrap successor)
                        good = bit == 0 and len(atoms) == 1 and next(iter(atoms))[0] == 'attr' and \
                            (next(iter(atoms))[2] == cur or next(iter(atoms))[2] in first_parity_attrs)
                        if not good:
                            ok, detail = False, 'new cursor parity is %s + %s: the parity of the previous id is not ' \
                                                'preserved' % (bit, sorted(fmt_term(a) for a in atoms))
        if reached == 0:
            raise AnalysisError('C13.a: store at %s:%s not reached' % (f.file, stmt.lineno))
        rep.add('C13.a', '%s / store to %s preserves parity' % (f.short, cur), (f.file, stmt.lineno), ok,
                detail or 'value has the parity of the previous cursor / first id on all %d paths' % reached)
    # first ids and the mask
    for cls, want in ((slots.RSocketClient, 1), (slots.RSocketServer, 2)):
        g = cls.lookup('_get_first_stream_id')
        if g is None:
            raise AnalysisError('C13.a: %s._get_first_stream_id vanished' % cls.name)
        vals = set()
        for p in ctx.paths(g, cls):
            if p.outcome == 'return' and p.value is not None and p.value.is_const():
                vals.add(p.value.const)
            else:
                vals.add('?')
        rep.add('C13.a', '%s first stream id' % cls.name, g, vals == {want},
                'first id is the literal %d' % want if vals == {want} else 'first id is %s, expected %d' % (vals, want))
    # the first id reaches StreamControl unmodified
    reset = ctx.repo.func('rsocket.rsocket_base:RSocketBase._reset_internals')
    for cls, want in ((slots.RSocketClient, 1), (slots.RSocketServer, 2)):
        ok = False
        for p in ctx.paths(reset, cls, inline_depth=2, no_inline={'_fail_unsent_frames'}):
            for e in p.events:
                if e.kind == 'new' and e.data['cls'] is sc:
                    a = e.data['args'][0] if e.data.get('args') else None
                    ok = a is not None and a.is_const() and a.const == want
        rep.add('C13.a', '%s / first id passed to StreamControl' % cls.name, reset, ok,
                'StreamControl is created with the first id %d' % want if ok else
                'StreamControl is not created with the literal first id %d' % want)
    m = ctx.repo.module('rsocket.stream_control')
    mx = None
    for p in ctx.paths(sc.methods['__init__'], sc):
        for e in p.events:
            if e.kind == 'store' and e.data['target'][0] == 'attr' and 'maximum' in e.data['target'][2]:
                if e.data['value'].is_const():
                    mx = e.data['value'].const
    rep.add('C13.a', 'StreamControl maximum stream id', sc, mx == 2 ** 31 - 1,
            'the id mask is 2^31-1' if mx == 2 ** 31 - 1 else 'the id mask is %r, not 2^31-1' % (mx,))
    ctx.cache['id_max'] = mx


def rule_b(ctx):
    rep = ctx.report
    sc = ctx.slots.StreamControl
    cur = ctx.cache.get('id_cursor') or 'stream'
    alloc = sc.methods['allocate_stream']
    paths = ctx.paths(alloc, sc)
    rets = [p for p in paths if p.outcome == 'return']
    if not rets:
        raise AnalysisError('C13.b: allocate_stream has no returning path')
    ok = True
    detail = ''
    for p in rets:
        rv = strip_epoch(p.value.term)
        last_store = max([e.seq for e in p.events if e.kind == 'store' and e.data['target'][0] == 'attr' and
                          e.data['target'][2] == cur] or [-1])
        # the returned value must be the value of the last cursor store
        stored = None
        for e in p.events:
            if e.seq == last_store:
                stored = strip_epoch(e.data['value'].term)
        if last_store < 0:
            ok, detail = False, 'a returning path never advances the cursor'
            continue
        if rv != stored:
            ok, detail = False, 'the returned value %s is not the cursor value stored last (%s)' % (
                fmt_term(rv), fmt_term(stored))
            continue
        nonzero = infree = False
        for e in p.events:
            if e.kind == 'cond' and e.seq > last_store:
                k = strip_epoch(e.data['key'])
                if k[0] == 'eq' and rv in k[1:] and ('const', 0) in k[1:] and e.data['value'] is False:
                    nonzero = True
                if k[0] == 'in' and k[1] == rv and e.data['value'] is False and \
                        ctx.slots.stream_table_attr in repr(k[2]):
                    infree = True
        if not nonzero:
            ok, detail = False, 'a returning path does not establish that the returned id is not 0'
        elif not infree:
            ok, detail = False, 'a returning path does not establish that the returned id is not in the stream table'
    rep.add('C13.b', 'StreamControl.allocate_stream / returned id is the tested one', alloc, ok,
            detail or 'on all %d returning paths the returned value is the cursor that was tested non-zero and free '
                      'after the last advance' % len(rets))


def _num(term, env):
    t = strip_epoch(term)
    if t[0] == 'const' and isinstance(t[1], (int, float)):
        return t[1]
    if t[0] == 'attr' and t[2] in env:
        return env[t[2]]
    if t[0] == 'op':
        a, b = _num(t[2], env), _num(t[3], env)
        if a is None or b is None:
            return None
        try:
            return {'Add': a + b, 'Sub': a - b, 'Mult': a * b, 'Div': a / b, 'FloorDiv': a // b,
                    'RShift': int(a) >> int(b), 'LShift': int(a) << int(b)}.get(t[1])
        except Exception:
            return None
    return None


def rule_c(ctx):
    rep = ctx.report
    sc = ctx.slots.StreamControl
    alloc = sc.methods['allocate_stream']
    mx = ctx.cache.get('id_max')
    if mx is None:
        raise AnalysisError('C13.c: maximum id unknown')
    env = {}
    for p in ctx.paths(sc.methods['__init__'], sc):
        for e in p.events:
            if e.kind == 'store' and e.data['target'][0] == 'attr' and e.data['value'].is_const():
                env[e.data['target'][2]] = e.data['value'].const
    # step of the cursor
    cur = ctx.cache.get('id_cursor')
    step = None
    for f, stmt, value in ctx.repo.attr_assignments(sc, cur):
        if f.name == '__init__':
            continue
        for p in ctx.paths(f, sc):
            for e in p.events:
                if e.kind == 'store' and e.node is stmt:
                    t = strip_epoch(e.data['value'].term)
                    # (cur + k) & mask
                    def find_add(x):
                        if x[0] == 'op' and x[1] == 'Add':
                            for y in (x[2], x[3]):
                                if y[0] == 'const':
                                    return y[1]
                        if x[0] == 'op':
                            return find_add(x[2]) or find_add(x[3])
                        return None
                    step = find_add(t) or step
    if not step:
        raise AnalysisError('C13.c: cannot extract the cursor step')
    paths = ctx.paths(alloc, sc)
    raising = [p for p in paths if p.outcome == 'raise']
    if not raising:
        raise AnalysisError('C13.c: allocate_stream has no failing path')
    # form 1: a bounded for-loop over range(<expr>) around the cursor advance
    for_loops = [n for n in walk_local(alloc.node) if isinstance(n, ast.For) and isinstance(n.iter, ast.Call) and
                 isinstance(n.iter.func, ast.Name) and n.iter.func.id == 'range' and len(n.iter.args) == 1]
    if for_loops:
        def ev(e):
            if isinstance(e, ast.Constant) and isinstance(e.value, (int, float)):
                return e.value
            if isinstance(e, ast.Attribute) and isinstance(e.value, ast.Name) and e.value.id == 'self':
                return env.get(e.attr)
            if isinstance(e, ast.Name):
                return ctx.repo.try_const(alloc.module, e)
            if isinstance(e, ast.BinOp):
                a, b = ev(e.left), ev(e.right)
                if a is None or b is None:
                    return None
                ops = {ast.Add: a + b, ast.Sub: a - b, ast.Mult: a * b}
                for k, v in ops.items():
                    if isinstance(e.op, k):
                        return v
                if isinstance(e.op, ast.FloorDiv):
                    return a // b
                if isinstance(e.op, ast.Div):
                    return a / b
                if isinstance(e.op, ast.RShift):
                    return int(a) >> int(b)
            return None
        import math
        val = ev(for_loops[0].iter.args[0])
        if val is None:
            raise AnalysisError('C13.c: cannot evaluate the attempt bound %s' % ast.unparse(for_loops[0].iter.args[0]))
        attempts = math.floor(val)
        need = (mx + 1) // step
        ok = attempts >= need
        rep.add('C13.c', 'StreamControl.allocate_stream / attempt bound', alloc, ok,
                '%d attempts are permitted, the parity class has %d ids (step %d)' % (attempts, need, step) if ok else
                'allocation gives up after %d attempts although the parity class has %d ids: it can fail while an id '
                'of that parity is free' % (attempts, need))
        advances = [n for n in ast.walk(for_loops[0]) if isinstance(n, ast.Call) and isinstance(n.func, ast.Attribute)
                    and 'increment' in n.func.attr]
        rep.add('C13.c', 'StreamControl.allocate_stream / one attempt per advance', alloc, len(advances) == 1,
                'one cursor advance per iteration' if len(advances) == 1 else
                '%d cursor advances per counted attempt' % len(advances))
        return
    # form 2: a counter compared with a bound; the guard of the raise: a comparison between the attempt counter (a constant on the first iteration) and a bound
    attempts = None
    for p in raising:
        conds = [e for e in p.events if e.kind == 'cond' and not e.data.get('static')]
        if not conds:
            continue
        k = strip_epoch(conds[-1].data['key'])
        v = conds[-1].data['value']
        if k[0] == 'lt':
            a, b = _num(k[1], env), _num(k[2], env)
            # raise when (a < b) == v ; one side is the counter (0 on the first iteration), the other the bound
            ca, cb = k[1][0] == 'const', k[2][0] == 'const'
            if v and cb and not ca and a is not None:
                # bound < counter  -> counter values 0..floor(bound) are permitted
                import math
                attempts = math.floor(a) + 1
            elif (not v) and ca and not cb and b is not None:
                # not (counter < bound) -> counter >= bound fails: counter values 0..ceil(bound)-1 permitted
                import math
                attempts = math.ceil(b)
    if attempts is None:
        raise AnalysisError('C13.c: cannot extract the attempt bound of allocate_stream')
    # the only reason to give up is that the attempts are used up: a raise decided by anything else (a count of the
    # shared stream table, which also holds the peer's ids) fails while ids of the own parity are free
    other = []
    counters = set()
    for p in paths:
        for e in p.events:
            if e.kind == 'store' and e.data['target'][0] == 'local' and (e.data.get('aug') == 'Add' or (
                    isinstance(e.node, ast.Assign) and isinstance(e.node.value, ast.BinOp))):
                counters.add(e.data['target'][1] if isinstance(e.data['target'][1], str) else e.data['target'][1][0])
    for p in raising:
        conds = [e for e in p.events if e.kind == 'cond' and not e.data.get('static')]
        if not conds:
            continue
        node = conds[-1].node
        names = {x.id for x in ast.walk(node) if isinstance(x, ast.Name)}
        if not (names & counters):
            other.append(conds[-1])
    rep.add('C13.c', 'StreamControl.allocate_stream / gives up only when the attempts are used up', alloc, not other,
            'every raising path is decided by the attempt counter' if not other else
            'allocation is also refused by the test at line %s, which does not count attempts: it can fail while an '
            'id of the endpoint\'s parity is free' % other[0].line)
    need = (mx + 1) // step
    ok = attempts >= need
    rep.add('C13.c', 'StreamControl.allocate_stream / attempt bound', alloc, ok,
            '%d attempts are permitted, the parity class has %d ids (step %d)' % (attempts, need, step) if ok else
            'allocation gives up after %d attempts although the parity class has %d ids: it can fail while ids of '
            'that parity are free' % (attempts, need))
    # the counter advances by one per cursor advance
    inc_ok = False
    for p in paths:
        for e in p.events:
            if e.kind == 'store' and e.data['target'][0] == 'local' and e.data.get('aug') == 'Add' and \
                    e.data['value'].is_const() and e.data['value'].const == 1:
                inc_ok = True
            # the same advance spelled `counter = counter + 1` (constant-folded to the next integer on the path)
            if e.kind == 'store' and e.data['target'][0] == 'local' and not e.data.get('aug') and \
                    isinstance(e.node, ast.Assign) and isinstance(e.node.value, ast.BinOp) and \
                    isinstance(e.node.value.op, ast.Add) and isinstance(e.node.targets[0], ast.Name) and \
                    isinstance(e.node.value.left, ast.Name) and e.node.value.left.id == e.node.targets[0].id and \
                    isinstance(e.node.value.right, ast.Constant) and e.node.value.right.value == 1:
                inc_ok = True
    rep.add('C13.c', 'StreamControl.allocate_stream / one attempt per advance', alloc, inc_ok,
            'the attempt counter advances by 1 per cursor advance' if inc_ok else
            'the attempt counter does not advance by exactly 1 per iteration')


def rule_f(ctx):
    """The cursor's successor function walks through every id of its parity class before it repeats: either the
    masked form (cursor + 2) & (2^k - 1), or advance-compare-wrap, where the largest value that is not wrapped must be
    the largest id of the class for both parities and the wrap target must be the endpoint's first id.  An off-by-one
    in the comparison never hands out the top id (allocation then fails with an id free)."""
    rep = ctx.report
    sc = ctx.slots.StreamControl
    cur = ctx.cache.get('id_cursor')
    mx = ctx.cache.get('id_max')
    if cur is None or mx is None:
        raise AnalysisError('C13.f: cursor attribute / maximum id unknown (C13.a did not run)')
    init = sc.methods['__init__']
    env = {}
    first_attrs = set()
    for p in ctx.paths(init, sc):
        for e in p.events:
            if e.kind == 'store' and e.data['target'][0] == 'attr':
                if e.data['value'].is_const():
                    env[e.data['target'][2]] = e.data['value'].const
                t = strip_epoch(e.data['value'].term)
                if t[0] == 'param' and t[2] == init.params()[1]:
                    first_attrs.add(e.data['target'][2])
    allowed = _successor_functions(sc)
    for f, stmt, value in ctx.repo.attr_assignments(sc, cur):
        if f.name == '__init__' or f not in allowed:
            continue  # a store outside the successor step is C13.h's business
        paths = [p for p in ctx.paths(f, sc) if p.outcome == 'return']
        stores = []
        for p in paths:
            st = [e for e in p.events if e.kind == 'store' and e.data['target'][0] == 'attr' and
                  e.data['target'][2] == cur]
            if len(st) != 1:
                raise AnalysisError('C13.f: %s stores the cursor %d times on a path' % (f.short, len(st)))
            conds = [e for e in p.events if e.kind == 'cond' and e.seq < st[0].seq and not e.data.get('static')]
            stores.append((strip_epoch(st[0].data['value'].term), conds))
        curterm = None

        def is_advance(t):
            """cursor + 2"""
            return t[0] == 'op' and t[1] == 'Add' and (
                (t[2][0] == 'attr' and t[2][2] == cur and t[3] == ('const', 2)) or
                (t[3][0] == 'attr' and t[3][2] == cur and t[2] == ('const', 2)))

        ok, detail = True, ''
        if len(stores) == 1 and not stores[0][1]:
            t = stores[0][0]
            masked = t[0] == 'op' and t[1] == 'BitAnd' and (is_advance(t[2]) or is_advance(t[3]))
            mask = None
            if masked:
                other = t[3] if is_advance(t[2]) else t[2]
                mask = _num(other, env)
            if not masked or mask is None:
                raise AnalysisError('C13.f: successor %s is neither the masked nor the compare-and-wrap form' %
                                    fmt_term(t))
            if (int(mask) + 1) & int(mask) != 0 or int(mask) != mx:
                ok, detail = False, 'the mask %r is not the all-ones maximum id %r' % (mask, mx)
            form = '(cursor + 2) & mask'
        else:
            adv = [(t, c) for t, c in stores if is_advance(t)]
            wrap = [(t, c) for t, c in stores if not is_advance(t)]
            if len(adv) != 1 or len(wrap) != 1 or len(adv[0][1]) != 1:
                raise AnalysisError('C13.f: successor of %s is neither the masked nor the compare-and-wrap form' %
                                    f.short)
            c = adv[0][1][0]
            k = strip_epoch(c.data['key'])
            v = c.data['value']
            if k[0] not in ('lt', 'le') or len(k) != 3:
                raise AnalysisError('C13.f: wrap test %s is not an ordering comparison' % fmt_term(k))
            a_is_next, b_is_next = is_advance(k[1]), is_advance(k[2])
            bound = _num(k[2], env) if a_is_next else (_num(k[1], env) if b_is_next else None)
            if bound is None or a_is_next == b_is_next:
                raise AnalysisError('C13.f: wrap test %s does not compare the advanced cursor with a known bound' %
                                    fmt_term(k))
            bound = int(bound)
            # largest advanced value that is kept (not wrapped)
            if a_is_next and v:           # next < B / next <= B kept
                largest = bound - 1 if k[0] == 'lt' else bound
            elif a_is_next and not v:     # not(next < B): kept when next >= B -> unbounded above
                largest = None
            elif b_is_next and not v:     # not(B < next) -> next <= B ; not(B <= next) -> next < B
                largest = bound if k[0] == 'lt' else bound - 1
            else:
                largest = None
            if largest is None:
                ok, detail = False, 'the advanced cursor is kept when it is beyond the bound: ids above the maximum ' \
                                    'are handed out'
            else:
                for first in (1, 2):
                    top_kept = largest - ((largest - first) % 2)
                    top_valid = mx - ((mx - first) % 2)
                    if top_kept != top_valid:
                        ok, detail = False, ('with first id %d the largest id handed out is %d, the largest id of that '
                                             'parity is %d: %s' % (
                                                 first, top_kept, top_valid,
                                                 'it is never allocated, and allocation fails while it is free'
                                                 if top_kept < top_valid else 'ids beyond the maximum are handed out'))
                        break
            w = wrap[0][0]
            if not (w[0] == 'attr' and w[2] in first_attrs):
                if ok:
                    ok, detail = False, 'on wrap-around the cursor becomes %s, which is not the first id the ' \
                                        'endpoint was created with' % fmt_term(w)
            form = 'advance, compare with %d, wrap to the first id' % bound
        rep.add('C13.f', '%s / the successor visits every id of the parity class' % f.short, (f.file, stmt.lineno),
                ok, detail or '%s: every id of either parity up to 2^31-1 is reached before the cursor repeats' % form)


def rule_g(ctx):
    """The id allocator of a connection lives as long as the connection: the object that holds the cursor and the
    table of live streams is created by the per-connection reset only.  stop_all_streams() - public, and called by
    applications on a connection that stays up (from a keepalive-timeout handler, say) - must not replace it:
    afterwards the ids would restart at the first id while the peer may still hold streams under those ids."""
    rep = ctx.report
    slots = ctx.slots
    sc = slots.StreamControl
    creators = []
    for k in (slots.RSocketBase, slots.RSocketClient, slots.RSocketServer):
        for m in k.methods.values():
            for n in walk_local(m.node):
                if isinstance(n, ast.Call) and isinstance(n.func, ast.Name) and n.func.id == sc.name:
                    creators.append((m, n))
    if not creators:
        raise AnalysisError('C13.g: nothing creates a StreamControl')
    allowed = {'_reset_internals', '__init__'}
    wrong = [(m, n) for m, n in creators if m.node.name not in allowed]
    rep.add('C13.g', 'socket classes / the id allocator is replaced by the connection reset only', creators[0][0],
            not wrong,
            'StreamControl(...) is created in %s only' % ', '.join(sorted({m.node.name for m, _ in creators}))
            if not wrong else
            '%s (line %d) creates a new StreamControl: called on a live connection it restarts the ids at the first '
            'id although the peer may still hold streams under them' % (wrong[0][0].short, wrong[0][1].lineno))


ENTRY_POINTS = ('handle_request_response', 'handle_request_stream', 'handle_request_channel',
                'handle_fire_and_forget')


def rule_d(ctx):
    rep = ctx.report
    slots = ctx.slots
    for name in ENTRY_POINTS:
        f = slots.RSocketBase.methods.get(name)
        if f is None:
            raise AnalysisError('C13.d: entry point %s vanished' % name)
        paths = ctx.paths(f, slots.RSocketServer, inline_depth=6, no_inline={'frame_received', 'setup', 'subscribe'})
        ok = True
        detail = ''
        n_ok = 0
        for p in paths:
            chk = [e for e in p.events if e.kind == 'cond' and strip_epoch(e.data['key'])[0] == 'in' and
                   slots.stream_table_attr in repr(e.data['key'])]
            regs = [e for e in p.events if is_register(e, slots)]
            app = [e for e in p.events if e.kind == 'call' and e.data.get('how') in ('app', 'unknown') and
                   e.data.get('awaited')]
            first_effect = min([e.seq for e in regs + app] or [10 ** 9])
            if (regs or app) and (not chk or chk[0].seq > first_effect):
                ok = False
                detail = 'the handler is invoked / registered without first testing the incoming stream id ' \
                         'against the table'
            if chk:
                kt = strip_epoch(chk[0].data['key'])[1]
                if kt != ('attr', ('param', f.qualname, 'frame'), 'stream_id'):
                    ok, detail = False, 'the availability test examines %s, not the id of the incoming frame' % \
                        fmt_term(kt)
                if chk[0].data['value'] is True:
                    # id in use: must raise REJECTED and must not register
                    if p.outcome != 'raise':
                        ok, detail = False, 'an in-use id does not raise'
                    elif regs:
                        ok, detail = False, 'an in-use id replaces the registered handler'
                    else:
                        code = _error_code_of(p)
                        if code != 'REJECTED':
                            ok, detail = False, 'an in-use id is answered with %s, not REJECTED' % code
                        else:
                            n_ok += 1
        if n_ok == 0 and ok:
            ok, detail = False, 'no path rejects an id that is in use'
        rep.add('C13.d', 'RSocketBase.%s / in-use id rejected before registration' % name, f, ok,
                detail or 'the id of the incoming frame is tested first; an id in use raises REJECTED and leaves the '
                          'table untouched')


def _error_code_of(p):
    exc = p.value
    if exc is None:
        return None
    obj = exc.term
    for e in p.events:
        if e.kind == 'store' and e.data['target'][0] == 'attr' and e.data['target'][1] == obj and \
                e.data['target'][2] == 'error_code':
            v = e.data['value'].term
            if v[0] == 'enum':
                return v[2]
            return fmt_term(v)
    return None


def rule_e(ctx):
    """A request reusing a live id can be rejected only if it reaches its handle_* method: new requests are routed to
    the dispatch table and never offered to the stream table first (shared C01.e routing).  The stream table never
    holds the connection stream id (so a frame on stream 0 can never be swallowed by a stream handler)."""
    from . import dispatch
    dispatch.rule_routing(ctx, 'C13.d', only=['RequestResponseFrame', 'RequestStreamFrame', 'RequestChannelFrame',
                                              'RequestFireAndForgetFrame', 'PayloadFrame'])
    # ... and the rejection itself leaves the live stream alone (shared C12.b: the receive loop's error branches)
    from .c12 import rule_b as c12b
    c12b(ctx)
    rep = ctx.report
    sc = ctx.slots.StreamControl
    f = sc.lookup('register_stream')
    if f is None:
        raise AnalysisError('C13.e: StreamControl.register_stream vanished')
    sid = ('param', f.qualname, f.params()[1])
    ok = True
    n = 0
    why = ''
    for p in ctx.paths(f, sc):
        stores = [e for e in p.events if e.kind == 'store' and e.data['target'][0] == 'item' and
                  strip_epoch(e.data['target'][1]) == ('attr', ('self',), ctx.slots.stream_table_attr)]
        if not stores:
            continue
        n += 1
        if strip_epoch(stores[0].data['target'][2]) != sid:
            ok, why = False, 'the handler is stored under %s, not the id passed in' % fmt_term(
                stores[0].data['target'][2])
        zero = [c for c in p.events if c.kind == 'cond' and c.seq < stores[0].seq and c.data['key'][0] == 'eq' and
                sid in [strip_epoch(x) for x in c.data['key'][1:3]] and
                ('const', 0) in [strip_epoch(x) for x in c.data['key'][1:3]]]
        if not zero or zero[-1].data['value'] is not False:
            ok, why = False, 'a handler can be registered under stream id 0'
    rep.add('C13.e', 'StreamControl.register_stream / never under the connection stream id', f, ok and n > 0,
            why or 'the table is written only after stream_id == 0 was refused (%d paths)' % n)



def rule_error_conversion(ctx):
    """REJECTED for a stream id in use reaches the peer as REJECTED: the conversion keeps the protocol error's code (shared C12.l)."""
    from .c12 import rule_error_conversion as conv
    conv(ctx, 'C12.l')



def _successor_functions(sc):
    """allocate_stream and the methods of the class that only allocate_stream (transitively) calls."""
    alloc = sc.methods.get('allocate_stream')
    if alloc is None:
        raise AnalysisError('C13: allocate_stream vanished')
    callers = {}
    for g in sc.methods.values():
        for n in walk_local(g.node):
            if isinstance(n, ast.Attribute) and isinstance(n.value, ast.Name) and n.value.id == 'self' and \
                    n.attr in sc.methods and isinstance(n.ctx, ast.Load):
                callers.setdefault(sc.methods[n.attr], set()).add(g)
    allowed = {alloc}
    changed = True
    while changed:
        changed = False
        for g, cs in callers.items():
            if g not in allowed and cs and cs <= allowed and not g.name.startswith('__'):
                allowed.add(g)
                changed = True
    return allowed


def rule_h(ctx):
    """C13.h  The allocation cursor moves only by the successor step: the attribute is stored by __init__ and by
    allocate_stream (or a method only allocate_stream calls) and by nothing else in the library - not when a stream is
    registered (the peer's ids go through the same method), not when one is finished (an id handed out and finished
    must not be handed out again while the peer may still send on it, and fire-and-forget finishes ids it never
    registered)."""
    rep = ctx.report
    sc = ctx.slots.StreamControl
    cur = ctx.cache.get('id_cursor')
    if cur is None:
        raise AnalysisError('C13.h: cursor attribute unknown (C13.a did not run)')
    allowed = _successor_functions(sc)
    n = 0
    bad = []
    for f in ctx.repo.all_functions():
        if not f.module.name.startswith('rsocket.'):
            continue
        for x in walk_local(f.node):
            t = None
            if isinstance(x, ast.Assign):
                t = [y for y in x.targets]
            elif isinstance(x, (ast.AugAssign, ast.AnnAssign)):
                t = [x.target]
            for y in t or []:
                for z in ast.walk(y):
                    if isinstance(z, ast.Attribute) and z.attr == cur and isinstance(z.ctx, ast.Store):
                        n += 1
                        if not (f.cls is not None and f.cls.is_subclass_of(sc) and
                                (f.name == '__init__' or f in allowed)):
                            bad.append((f, x))
    for f, x in bad:
        rep.bad('C13.h', '%s / moves the allocation cursor' % f.qualname.split(':')[-1], f,
                '`%s` outside the successor step: ids are handed out in an order other than +2 from the last one '
                'allocated, so an id can be issued twice or with the peer\'s parity' % ast.unparse(x))
    rep.require('C13.h', 'stores to the allocation cursor', n, 2)
    if not bad:
        rep.ok('C13.h', 'allocation cursor / written by __init__ and the successor step only', sc.methods['allocate_stream'],
               '%d stores, all in %s' % (n, sorted(g.name for g in allowed | {sc.methods['__init__']})))




def rule_i(ctx):
    """C13.i  An id that has been handed out is in the stream table before control goes back to the application: in
    every method of the socket that calls the allocator, the allocated value reaches StreamControl.register_stream on
    every returning path of that same call (directly or through a helper of the class).  The allocator skips only ids
    it finds in the table, so an id that is allocated now and registered later - at subscribe() - can be handed out a
    second time once the cursor has gone round.  The one exception is fire-and-forget, which has no responder frames
    and releases its id when the frame has been written (C10.c)."""
    rep = ctx.report
    slots = ctx.slots
    base = slots.RSocketBase
    n = 0
    for name, f in sorted(base.methods.items()):
        if name in ('_allocate_stream',):
            continue
        calls_alloc = [x for x in walk_local(f.node) if isinstance(x, ast.Call) and isinstance(x.func, ast.Attribute)
                       and x.func.attr in ('_allocate_stream', 'allocate_stream')]
        if not calls_alloc:
            continue
        n += 1
        if name == 'fire_and_forget':
            rep.ok('C13.i', 'RSocketBase.fire_and_forget / id released by the sent-callback, never registered', f,
                   'no frame is ever received on a fire-and-forget stream (C10.c decides the release)')
            continue
        ok, detail = True, ''
        n_paths = 0
        for p in ctx.paths(f, slots.RSocketServer, inline_depth=2, no_inline={'allocate_stream', 'register_stream'}):
            if p.outcome != 'return':
                continue
            allocs = [e for e in p.events if e.kind == 'call' and e.data.get('name') in ('allocate_stream',)]
            if not allocs:
                continue
            n_paths += 1
            for a in allocs:
                v = strip_epoch(a.data['value'].term)
                regs = [e for e in p.events if e.kind == 'call' and e.data.get('name') == 'register_stream' and
                        e.seq > a.seq and e.data.get('args') and strip_epoch(e.data['args'][0].term) == v]
                if not regs:
                    ok, detail = False, ('the id allocated in %s() is not registered before the call returns: the '
                                         'allocator can hand it out again while the first stream is still pending' % name)
                else:
                    between = [e for e in p.events if e.kind in ('await', 'yield') and a.seq < e.seq < regs[0].seq]
                    if between:
                        ok, detail = False, 'the call suspends between allocating the id and registering it'
        rep.add('C13.i', 'RSocketBase.%s / the allocated id is registered in the same call' % name, f,
                ok and n_paths > 0, detail or 'allocate_stream() -> register_stream(<that id>, handler) on %d paths' %
                n_paths)
    rep.require('C13.i', 'methods of the socket that allocate an id', n, 2)




def rule_j(ctx):
    """C13.j (rules/c10.py): a live stream's id is released only together with a terminal frame."""
    from .c10 import rule_release_needs_terminal
    rule_release_needs_terminal(ctx, 'C13.j')




def rule_finished_streams_are_not_cancelled_again(ctx):
    """(shared C20.d)  finish_stream releases by id, not by handler: an adapter that cancels a stream which has already
    ended (its task woken by the disposal that follows on_completed) sends a CANCEL for, and unregisters, whatever
    stream holds that id by then - after wrap-around a live one.  The Rx adapters cancel from their subscription task
    only while the stream is not done (rules/c20.py)."""
    from .c20 import rule_d as c20d
    c20d(ctx)

def rule_ended_requesters_release_nothing(ctx):
    """(shared C08.l)  finish_stream releases by id: a requester that the peer's COMPLETE or ERROR has ended must be
    inert from then on, because a late cancel() on its subscription would send CANCEL for, and unregister, whatever
    stream holds that id by then - after wrap-around a live request, whose id the allocator then hands out again.  The
    requester notes the end of its stream on every terminal branch (rules/c08.py)."""
    from .c08 import rule_ended_stream_is_silent
    rule_ended_stream_is_silent(ctx)


RULES = [('C13.a', rule_a), ('C13.b', rule_b), ('C13.c', rule_c), ('C13.d', rule_d), ('C13.d+C13.e', rule_e), ('C13.f', rule_f), ('C13.g', rule_g), ('C12.l', rule_error_conversion), ('C13.h', rule_h), ('C13.i', rule_i), ('C13.j', rule_j), ('C20.d', rule_finished_streams_are_not_cancelled_again), ('C08.l', rule_ended_requesters_release_nothing)]
