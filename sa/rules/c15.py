"""C15 Keepalive: echo, periodic emission, timeout detection."""
import ast

from .. import AnalysisError
from ..effects import is_enq_send, strip_epoch
from ..index import walk_local
from ..interp import fmt_term, const, AVal
from . import COMMON_ASSUMPTIONS

EXPLANATION = (
    'Decides the echo clause as a typestate over the paths of the KEEPALIVE handler (respond flag bound to each '
    'value): with the flag exactly one frame is enqueued, it is a KEEPALIVE whose respond flag is stored False '
    'before the enqueue and whose data is the received data; without the flag nothing is enqueued. For the timing '
    'clauses it verifies only the code shapes on which the two bounds rest: the sender loop sleeps exactly the '
    'configured keep-alive period per iteration and builds a respond-flagged KEEPALIVE with the send-queue as only '
    'destination; the timeout loop sleeps the configured maximum lifetime, compares now minus the last-keepalive '
    'timestamp strictly (>) with that same period, and on timeout clears the liveness flag and awaits '
    'on_keepalive_timeout; the timestamp is stored unconditionally, from the clock, on every KEEPALIVE receipt. With '
    'these shapes: KEEPALIVEs arriving at intervals <= L keep now-last <= L at every check (no false timeout), and '
    'silence > 2L spans a full sleep of L after the last receipt, so the next check sees now-last > L. The checker '
    'verifies the shapes, not the bounds; periods as run-time facts are not decided.')
EXPLANATION_ADDED = ('The sender calls the _before_sender/_finally_sender hooks in which the client starts and stops its keepalive task; KEEPALIVE frames reach handle_keep_alive (dispatch row and routing). No call of a library coroutine function is dropped as a statement or returned un-awaited from another coroutine function (C15.d): the call-backs the library awaits - keepalive timeout included - reach the application through the handler adapters. The keep-alive period and the maximum lifetime the loops use are the constructor arguments themselves (shared C16.c).')
EXPLANATION = EXPLANATION.replace(' Not decided', ' ' + EXPLANATION_ADDED + ' Not decided', 1) \
    if ' Not decided' in EXPLANATION else EXPLANATION + ' ' + EXPLANATION_ADDED
ASSUMPTIONS = COMMON_ASSUMPTIONS


def rule_a(ctx):
    rep = ctx.report
    slots = ctx.slots
    f = ctx.repo.func('rsocket.rsocket_base:RSocketBase.handle_keep_alive')
    ka = slots.frame_classes['KeepAliveFrame']
    frame_term = ('param', f.qualname, 'frame')
    for cls in (slots.RSocketClient, slots.RSocketServer):
        for respond in (True, False):
            heap = {(frame_term, 'flags_respond'): const(respond)}
            paths = ctx.paths(f, cls, args={'frame': AVal(frame_term, [ka], exact=True)}, initial_heap=heap)
            ok = True
            detail = ''
            for p in paths:
                if p.outcome != 'return':
                    ok, detail = False, 'a path raises'
                    continue
                enq = [e for e in p.events if is_enq_send(e, slots)]
                if not respond:
                    if enq:
                        ok, detail = False, 'a KEEPALIVE without the respond flag is answered'
                    continue
                if len(enq) != 1:
                    ok, detail = False, '%d frames enqueued for a respond-flagged KEEPALIVE' % len(enq)
                    continue
                a = enq[0].data['args'][0]
                if not a.types or not all(getattr(t, 'name', '') == 'KeepAliveFrame' for t in a.types):
                    ok, detail = False, 'the answer is not a KEEPALIVE frame'
                    continue
                obj = a.term
                flag = None
                data = ('attr', frame_term, 'data') if obj == frame_term else None
                for s in p.events:
                    if s.seq > enq[0].seq:
                        break
                    if s.kind == 'store' and s.data['target'][0] == 'attr' and s.data['target'][1] == obj:
                        if s.data['target'][2] == 'flags_respond':
                            v = s.data['value']
                            flag = v.const if v.is_const() else '?'
                        if s.data['target'][2] == 'data':
                            data = strip_epoch(s.data['value'].term)
                if flag is not False:
                    ok, detail = False, 'the echoed frame is enqueued with its respond flag %s (an echo storm between ' \
                                        'the peers)' % ('still set' if flag is None else flag)
                elif data != ('attr', frame_term, 'data'):
                    ok, detail = False, 'the echoed frame does not carry the received data (%s)' % fmt_term(data)
            rep.add('C15.a', '%s.handle_keep_alive / respond=%s' % (cls.name, respond), f, ok,
                    detail or ('exactly one KEEPALIVE with the flag cleared and the same data' if respond else
                               'nothing is enqueued'))


def _clock_name(term):
    """name of the clock function a timestamp term was read from (datetime.now / datetime.utcnow / time.monotonic ...)"""
    t = strip_epoch(term)
    found = []

    def walk(x):
        if isinstance(x, tuple):
            if x and x[0] in ('call', 'pure', 'external') and len(x) > 1 and isinstance(x[1], str) and (
                    'now' in x[1] or 'time' in x[1] or 'monotonic' in x[1]):
                found.append(x[1].split('.')[-1])
            for y in x:
                walk(y)
    walk(t)
    return found[0] if found else repr(t)[:40]


def rule_b(ctx):
    rep = ctx.report
    slots = ctx.slots
    c = slots.RSocketClient
    # sender loop
    snd = c.lookup('_keepalive_send_task')
    if snd is None:
        raise AnalysisError('C15.b: keepalive send task vanished')
    paths = ctx.paths(snd, c, inline_depth=5)
    iters = [p for p in paths if any(e.kind == 'loop' and e.data.get('phase') == 'back' for e in p.events)]
    if not iters:
        raise AnalysisError('C15.b: the keepalive send task has no loop iteration')
    ok = True
    detail = ''
    for p in iters:
        sleeps = [e for e in p.events if e.kind == 'call' and str(e.data.get('name', '')).endswith('sleep')]
        enq = [e for e in p.events if is_enq_send(e, slots)]
        if len(sleeps) != 1:
            ok, detail = False, '%d sleeps per iteration' % len(sleeps)
            continue
        arg = strip_epoch(sleeps[0].data['args'][0].term) if sleeps[0].data.get('args') else None
        if not (arg and arg[0] == 'pure' and arg[1] == 'total_seconds' and
                strip_epoch(arg[2]) == ('attr', ('self',), '_keep_alive_period')):
            ok, detail = False, 'the loop sleeps %s, not the configured keep-alive period' % fmt_term(arg)
            continue
        if len(enq) != 1:
            ok, detail = False, '%d frames enqueued per period' % len(enq)
            continue
        a = enq[0].data['args'][0]
        flag = None
        for s in p.events:
            if s.kind == 'store' and s.seq < enq[0].seq and s.data['target'][0] == 'attr' and \
                    s.data['target'][1] == a.term and s.data['target'][2] == 'flags_respond':
                flag = s.data['value'].const if s.data['value'].is_const() else '?'
        if not a.types or next(iter(a.types)).name != 'KeepAliveFrame' or flag is not True:
            ok, detail = False, 'the periodic frame is not a respond-flagged KEEPALIVE'
    rep.add('C15.b', 'RSocketClient._keepalive_send_task / one respond-flagged KEEPALIVE per period', snd, ok,
            detail or 'sleeps the keep-alive period once and enqueues one KEEPALIVE with respond set per iteration')
    # timeout loop
    tmo = c.lookup('_keepalive_timeout_task')
    if tmo is None:
        raise AnalysisError('C15.b: keepalive timeout task vanished')
    paths = ctx.paths(tmo, c, inline_depth=3)
    its = [p for p in paths if any(e.kind == 'loop' and e.data.get('phase') in ('back', 'cut') for e in p.events)]
    if not its:
        raise AnalysisError('C15.b: the keepalive timeout task has no loop iteration')
    ok = True
    detail = ''
    n_timeout = 0
    watch_clocks = set()
    stamp_clocks = set()
    for p in its:
        sleeps = [e for e in p.events if e.kind == 'call' and str(e.data.get('name', '')).endswith('sleep')]
        if len(sleeps) != 1:
            ok, detail = False, '%d sleeps per iteration' % len(sleeps)
            continue
        arg = strip_epoch(sleeps[0].data['args'][0].term)
        if not (arg[0] == 'pure' and arg[1] == 'total_seconds' and
                strip_epoch(arg[2]) == ('attr', ('self',), '_max_lifetime_period')):
            ok, detail = False, 'the check interval is %s, not the configured maximum lifetime' % fmt_term(arg)
            continue
        cmps = [e for e in p.events if e.kind == 'cond' and e.data['key'][0] == 'lt' and e.seq > sleeps[0].seq]
        if not cmps:
            ok, detail = False, 'no comparison after the sleep'
            continue
        k = strip_epoch(cmps[0].data['key'])
        # timeout when  period < (now - last)   i.e. lt(period, diff) True
        period, diff = k[1], k[2]
        if period != ('attr', ('self',), '_max_lifetime_period'):
            ok, detail = False, 'the silence is compared with %s, not with the maximum lifetime (or not strictly)' % \
                fmt_term(period)
            continue
        if not (diff[0] == 'op' and diff[1] == 'Sub' and diff[3] == ('attr', ('self',), '_last_server_keepalive') and
                'now' in repr(diff[2])):
            ok, detail = False, 'the compared quantity is %s, not now - last keepalive' % fmt_term(diff)
            continue
        watch_clocks.add(_clock_name(diff[2]))
        timed_out = cmps[0].data['value'] is True
        cleared = [e for e in p.events if e.kind == 'store' and e.data['target'][0] == 'attr' and
                   e.data['target'][2] == '_is_server_alive' and e.data['value'].is_const() and
                   e.data['value'].const is False]
        told = [e for e in p.events if e.kind == 'call' and e.data.get('name') == 'on_keepalive_timeout']
        # ... the handler installed now (self._handler read when the timeout fires), not one captured earlier
        stale = [e for e in told if e.data.get('recv') is None or
                 strip_epoch(e.data['recv'].term) != ('attr', ('self',), '_handler')]
        if stale:
            ok, detail = False, ('the timeout is reported to a call-back captured when the watchdog started, not to '
                                 'self._handler as it is when the timeout fires: a handler installed later is never told')
        if timed_out:
            n_timeout += 1
            if not cleared or not told:
                ok, detail = False, 'on timeout the liveness flag is not cleared or the application is not told'
        elif cleared or told:
            ok, detail = False, 'the timeout callback runs although the silence does not exceed the maximum lifetime'
    if n_timeout == 0 and ok:
        ok, detail = False, 'no path reports a timeout'
    rep.add('C15.b', 'RSocketClient._keepalive_timeout_task / strict comparison with the maximum lifetime', tmo, ok,
            detail or 'sleeps the maximum lifetime, reports a timeout exactly when now - last > maximum lifetime')
    # the timestamp is refreshed on every KEEPALIVE, unconditionally, from the clock
    hk = ctx.repo.func('rsocket.rsocket_base:RSocketBase.handle_keep_alive')
    ps = ctx.paths(hk, c)
    ok = True
    for p in ps:
        st = [e for e in p.events if e.kind == 'store' and e.data['target'][0] == 'attr' and
              e.data['target'][2] == '_last_server_keepalive']
        if not st or 'now' not in repr(st[0].data['value'].term):
            ok = False
        else:
            stamp_clocks.add(_clock_name(st[0].data['value'].term))
    rep.add('C15.b', 'RSocketBase.handle_keep_alive / timestamp refreshed on every KEEPALIVE', hk, ok,
            'the last-keepalive timestamp is set from the clock on all %d paths' % len(ps) if ok else
            'a KEEPALIVE can be received without refreshing the last-keepalive timestamp')
    # ... and from the same clock the watchdog reads: naive local time minus naive UTC is off by the zone offset
    same = len(stamp_clocks) == 1 and len(watch_clocks) == 1 and stamp_clocks == watch_clocks
    rep.add('C15.b', 'keepalive timestamp and watchdog / one clock', hk, same,
            'both read %s' % sorted(stamp_clocks)[0] if same else
            'the timestamp is taken with %s, the watchdog compares it with %s: in a time zone other than UTC the '
            'silence is mis-measured by the zone offset' % (sorted(stamp_clocks), sorted(watch_clocks)))
    # both tasks are started per connection: the sender from _before_sender, the timeout in _receiver_listen
    started = set()
    for name in ('_before_sender', '_receiver_listen'):
        g = c.lookup(name)
        if g is None:
            continue
        for n in walk_local(g.node):
            if isinstance(n, ast.Attribute) and n.attr in ('_keepalive_send_task', '_keepalive_timeout_task'):
                started.add(n.attr)
    ok = started == {'_keepalive_send_task', '_keepalive_timeout_task'}
    rep.add('C15.b', 'RSocketClient / keepalive tasks started per connection', c, ok,
            'the periodic sender and the timeout check are spawned by the sender/receiver of each connection' if ok
            else 'a keepalive task is not started with the connection (%s)' % sorted(started))


def rule_c(ctx):
    """Every connection gets its keepalive emitter: the sender hook starts one on every path, or skips it only behind a
    test of the attribute holding the task that the end of the previous connection is certain to have reset."""
    rep = ctx.report
    slots = ctx.slots
    C = slots.RSocketClient
    bs = C.lookup('_before_sender')
    if bs is None or bs.cls is slots.RSocketBase:
        raise AnalysisError('C15.c: RSocketClient._before_sender vanished')
    ok = True
    why = ''
    n = n_spawn = 0
    for p in ctx.paths(bs, C, inline_depth=2):
        if p.outcome != 'return':
            continue
        n += 1
        spawned = [e for e in p.events if e.kind == 'call' and str(e.data.get('name', '')).endswith('create_task')]
        if spawned:
            n_spawn += 1
            continue
        guards = [c for c in p.events if c.kind == 'cond' and c.data['key'][0] == 'isnone' and
                  strip_epoch(c.data['key'][1])[0] == 'attr' and strip_epoch(c.data['key'][1])[1] == ('self',)]
        closing = [c for c in p.events if c.kind == 'cond' and '_is_closing' in repr(c.data['key'])]
        if closing and not guards:
            continue  # not started because the socket is closing: nothing to keep alive
        if not guards or guards[-1].data['value'] is not False:
            ok, why = False, 'a path of the sender hook starts no keepalive emitter'
            continue
        attr = strip_epoch(guards[-1].data['key'][1])[2]
        # the attribute is back to None whenever a connection has ended
        reset_somewhere = False
        for name in ('_finally_sender', '_stop_tasks'):
            g = C.lookup(name)
            if g is None:
                continue
            ps = [q for q in ctx.paths(g, C, inline_depth=2, no_inline={'cancel_if_task_exists'})
                  if q.outcome == 'return']
            if ps and all(any(e.kind == 'store' and e.data['target'][0] == 'attr' and e.data['target'][2] == attr and
                              e.data['value'].is_const() and e.data['value'].const is None for e in q.events)
                          for q in ps):
                reset_somewhere = True
        if not reset_somewhere:
            ok, why = False, ('the emitter is started only if self.%s is None, but the end of a connection does not '
                              'reset it: after a reconnect no KEEPALIVE is sent' % attr)
    rep.add('C15.c', 'RSocketClient._before_sender / an emitter for every connection', bs, ok and n > 0 and n_spawn > 0,
            why or 'the keepalive send task is started on every path that is not closing (%d paths)' % n)


def rule_plumbing(ctx):
    from . import plumbing
    plumbing.rule_sender_hooks(ctx, 'C15.b')


def rule_dispatch(ctx):
    """KEEPALIVE frames of the connection reach handle_keep_alive (the method C15.a decides)."""
    from . import dispatch
    dispatch.rule_rows(ctx, 'C01.e', ['KeepAliveFrame'])
    dispatch.rule_lookup(ctx, 'C01.e')
    dispatch.rule_routing(ctx, 'C01.e', only=['KeepAliveFrame'])


def rule_periods(ctx):
    """The periods the emitter sleeps and the watchdog compares with are the constructor's arguments, unmodified
    (shared C16.c: provenance of the configuration attributes)."""
    from .c16 import rule_c as c16c
    c16c(ctx)


def rule_coroutines(ctx):
    """Every coroutine the library creates is run: the keepalive-timeout (and every other) call-back reaches the
    application through the handler adapters only if the adapter awaits the delegate (rules/binding.py)."""
    from .binding import rule_coroutines_run
    rule_coroutines_run(ctx, 'C15.d', ['rsocket', 'reactivestreams'], 'library coroutine calls')


def rule_one_verdict(ctx):
    """C15.e  The watchdog alone decides that the peer is dead.  The sender loop and the keepalive emitter it owns run
    while is_server_alive() holds, so a connected, uninformed client keeps emitting only if that predicate is nothing
    but the verdict of the watchdog:
      * every is_server_alive() of a socket class returns a constant or the liveness flag - no clock, no timestamp,
        nothing else that can change without the application having been told;
      * the flag is set to anything but True in the watchdog alone (behind its comparison, C15.b)."""
    rep = ctx.report
    slots = ctx.slots
    c = slots.RSocketClient
    tmo = c.lookup('_keepalive_timeout_task')
    if tmo is None:
        raise AnalysisError('C15.e: keepalive timeout task vanished')
    # the flag: what the watchdog clears before it tells the application
    flags = set()
    for n in walk_local(tmo.node):
        if isinstance(n, ast.Assign) and isinstance(n.value, ast.Constant) and n.value.value is False:
            for t in n.targets:
                if isinstance(t, ast.Attribute) and isinstance(t.value, ast.Name) and t.value.id == 'self':
                    flags.add(t.attr)
    if len(flags) != 1:
        raise AnalysisError('C15.e: the watchdog does not clear exactly one flag (%s)' % sorted(flags))
    flag = next(iter(flags))
    from ..astutil import returned_exprs
    n_pred = 0
    for k in ctx.repo.all_classes():
        if not k.is_subclass_of(slots.RSocketBase):
            continue
        f = k.methods.get('is_server_alive')
        if f is None or _is_abstract(f):
            continue
        n_pred += 1
        ok, why = True, ''

        def inspect(g, depth):
            bad = []
            rets = list(returned_exprs(g.node))
            if not rets:
                bad.append('no value returned')
            for r in rets:
                for x in ast.walk(r):
                    if isinstance(x, ast.Call):
                        fn = x.func
                        if isinstance(fn, ast.Attribute) and isinstance(fn.value, ast.Name) and fn.value.id == 'self' \
                                and k.lookup(fn.attr) is not None and depth < 2:
                            bad.extend(inspect(k.lookup(fn.attr), depth + 1))
                        elif isinstance(fn, ast.Name) and fn.id == 'bool':
                            continue
                        else:
                            bad.append('calls %s' % ast.unparse(fn))
                    elif isinstance(x, ast.Attribute) and isinstance(x.value, ast.Name) and x.value.id == 'self' and \
                            isinstance(x.ctx, ast.Load) and x.attr != flag and k.lookup(x.attr) is None:
                        bad.append('reads self.%s' % x.attr)
            # locals computed before the return take part too
            for x in walk_local(g.node):
                if isinstance(x, ast.Assign):
                    for y in ast.walk(x.value):
                        if isinstance(y, ast.Call) and not (isinstance(y.func, ast.Name) and y.func.id == 'bool'):
                            bad.append('calls %s' % ast.unparse(y.func))
                        elif isinstance(y, ast.Attribute) and isinstance(y.value, ast.Name) and y.value.id == 'self' \
                                and y.attr != flag:
                            bad.append('reads self.%s' % y.attr)
            return bad

        bad = inspect(f, 0)
        rep.add('C15.e', '%s.is_server_alive / the watchdog verdict and nothing else' % k.name, f, not bad,
                'returns %s' % ', '.join(ast.unparse(r) for r in returned_exprs(f.node)) if not bad else
                'the loop condition of the sender %s: the sender - and with it the keepalive emitter - can stop although '
                'no timeout has been reported' % ', '.join(sorted(set(bad))))
    rep.require('C15.e', 'is_server_alive implementations', n_pred, 2)
    # who clears the flag
    n_st = 0
    for f in ctx.repo.all_functions():
        if not f.module.name.startswith('rsocket.') or f.module.name.startswith('rsocket.cli'):
            continue
        for n in walk_local(f.node):
            targets = []
            if isinstance(n, ast.Assign):
                targets = [(t, n.value) for t in n.targets]
            elif isinstance(n, (ast.AugAssign, ast.AnnAssign)) and n.value is not None:
                targets = [(n.target, n.value)]
            for t, v in targets:
                if not (isinstance(t, ast.Attribute) and t.attr == flag):
                    continue
                n_st += 1
                if isinstance(v, ast.Constant) and v.value is True:
                    continue
                if f is tmo:
                    continue
                rep.bad('C15.e', '%s / store to %s' % (f.qualname.split(':')[-1], flag), f,
                        'self.%s = %s outside the watchdog: the sender and the keepalive emitter stop without a '
                        'reported timeout' % (flag, ast.unparse(v)))
    rep.require('C15.e', 'stores to the liveness flag', n_st, 2)
    rep.ok('C15.e', 'liveness flag / cleared by the watchdog alone', tmo,
           '%d stores to self.%s; every one outside %s sets True' % (n_st, flag, tmo.name))


def _is_abstract(f):
    if any('abstractmethod' in ast.unparse(d) for d in f.node.decorator_list):
        return True
    body = [s for s in f.node.body if not (isinstance(s, ast.Expr) and isinstance(s.value, ast.Constant) and
                                           isinstance(s.value.value, str))]
    return all(isinstance(s, ast.Pass) or (isinstance(s, ast.Expr) and isinstance(s.value, ast.Constant)) or
               isinstance(s, ast.Raise) for s in body)



def rule_builders_fresh(ctx):
    """(shared C05.h)  The periodic probe and the answer to the peer's probe are two frame objects: frames wait in the
    send queue as objects, and a KEEPALIVE frame shared between builder calls goes out with the respond flag of the
    call that came last (rules/plumbing.py)."""
    from .plumbing import rule_builders_fresh as rb
    rb(ctx, 'C05.h')


RULES = [('C15.a', rule_a), ('C15.b', rule_b), ('C15.c', rule_c), ('C15.b', rule_plumbing), ('C01.e', rule_dispatch), ('C15.d', rule_coroutines), ('C16.c', rule_periods), ('C15.e', rule_one_verdict), ('C05.h', rule_builders_fresh)]
