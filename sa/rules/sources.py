"""The library's own stream source (StreamFromGenerator / StreamFromAsyncGenerator): the chain of hand-offs from
request(n) to the subscriber.  C06.b/c decide that nothing is produced without credit and that the subscriber is fed
from one place; these rules decide that the hand-offs are there at all and lose nothing:

  request(n)        -> the credit feeder exists afterwards and n is queued
  subscribe(s)      -> on_subscribe, and the delivery feeder exists afterwards
  queue_next_n      -> every credit taken from the queue is turned into a batch, every element of the batch is put into
                       the delivery queue once, a batch that ends on a complete element ends the feeder, exhaustion
                       without a complete element queues the completion marker
  _generate_next_n  -> every value taken from the generator is yielded once (both variants)
  feed_subscriber   -> every element taken from the delivery queue is handed to _send_to_subscriber once, with its own
                       complete flag; the loop ends after the complete element
  _send_to_subscriber -> (None, complete) -> on_complete(); anything else -> on_next(payload, is_complete)
"""
from .. import AnalysisError
from ..effects import strip_epoch, recv_attr
from ..interp import fmt_term, const

GEN = 'rsocket.streams.stream_from_generator:StreamFromGenerator'
AGEN = 'rsocket.streams.stream_from_async_generator:StreamFromAsyncGenerator'


def _calls(p, name, recv=None):
    return [e for e in p.events if e.kind == 'call' and e.data.get('name') == name and
            (recv is None or recv_attr(e) == recv)]


def _spawned(p, target):
    """create_task events whose coroutine is self.<target>()"""
    out = []
    for e in p.events:
        if e.kind == 'call' and str(e.data.get('name', '')).endswith('create_task') and e.data.get('args'):
            t = strip_epoch(e.data['args'][0].term)
            if (t[0] == 'call' and t[1] == target) or (t[0] == 'coro' and str(t[1]).endswith('.' + target)):
                out.append(e)
    return out


def rule_source(ctx, rule):
    rep = ctx.report
    K = ctx.repo.cls(GEN)
    A = ctx.repo.cls(AGEN)
    self_t = ('self',)

    def attr_isnone(p, attr):
        c = [e for e in p.events if e.kind == 'cond' and e.data['key'][0] == 'isnone' and
             strip_epoch(e.data['key'][1]) == ('attr', self_t, attr)]
        return c[0].data['value'] if c else None

    # ---- request(n) / subscribe(s): both feeders run once the subscriber has subscribed and asked for something.
    # The credit feeder is started by request(); the delivery feeder by subscribe() or, lazily, by request().
    def starter_check(f, coro):
        """(spawns anywhere?, ok, why) for one starting method"""
        feeder_attr = None
        paths = [p for p in ctx.paths(f, K, inline_depth=2) if p.outcome == 'return']
        for p in paths:
            sp = _spawned(p, coro)
            stores = [e for e in p.events if e.kind == 'store' and e.data['target'][0] == 'attr' and
                      e.data['target'][1] == self_t and sp and
                      strip_epoch(e.data['value'].term) == strip_epoch(sp[0].data['value'].term)]
            if stores:
                feeder_attr = stores[0].data['target'][2]
        if feeder_attr is None:
            return False, True, ''
        ok, why = True, ''
        for p in paths:
            sp = _spawned(p, coro)
            had = attr_isnone(p, feeder_attr)
            if had is True and len(sp) != 1:
                ok, why = False, 'without a running %s task none is started' % coro
            if had is False and sp:
                ok, why = False, 'a second %s task is started although one is running' % coro
            if had is None:
                ok, why = False, 'the %s task is started without looking whether one is running' % coro
        return True, ok, why

    f_req = K.lookup('request')
    f_sub = K.lookup('subscribe')
    if f_req is None or f_sub is None:
        raise AnalysisError('%s: StreamFromGenerator.request / subscribe vanished' % rule)
    spawns_req, ok_r, why_r = starter_check(f_req, 'queue_next_n')
    n_req = 0
    for p in ctx.paths(f_req, K, inline_depth=2):
        if p.outcome != 'return':
            continue
        n_req += 1
        puts = [e for e in p.events if e.kind == 'call' and e.data.get('name') in ('put_nowait', 'put') and
                e.data.get('args') and strip_epoch(e.data['args'][0].term) == ('param', f_req.qualname,
                                                                               f_req.params()[1])]
        if len(puts) != 1:
            ok_r, why_r = False, 'request(n) queues n %d times' % len(puts)
    if not spawns_req:
        ok_r, why_r = False, 'no path of request() starts the queue_next_n task and keeps it'
    rep.add(rule, 'StreamFromGenerator.request / queue_next_n running afterwards', f_req, ok_r and n_req > 0,
            why_r or 'n queued once, credit feeder started iff none is running')
    s_sub, ok_s, why_s = starter_check(f_sub, 'feed_subscriber')
    s_req, ok_q, why_q = starter_check(f_req, 'feed_subscriber')
    ok_d, why_d = True, ''
    if not s_sub and not s_req:
        ok_d, why_d = False, 'neither subscribe() nor request() starts the feed_subscriber task: nothing delivers'
    elif not (ok_s and ok_q):
        ok_d, why_d = False, why_s or why_q
    n_sub = 0
    for p in ctx.paths(f_sub, K, inline_depth=2):
        if p.outcome != 'return':
            continue
        n_sub += 1
        subs = [e for e in p.events if e.kind == 'call' and e.data.get('name') == 'on_subscribe']
        if len(subs) != 1:
            ok_d, why_d = False, 'subscribe() calls on_subscribe %d times' % len(subs)
    rep.add(rule, 'StreamFromGenerator.subscribe / feed_subscriber running afterwards', f_sub, ok_d and n_sub > 0,
            why_d or 'on_subscribe once; delivery feeder started iff none is running (by %s)' % (
                'subscribe()' if s_sub else 'the first request()'))

    # ---- queue_next_n
    f = K.lookup('queue_next_n')
    ps = ctx.paths(f, K, inline_depth=1, no_inline={'_start_generator', '_cancel_feeders', '_generate_next_n'},
                   exc=('app',))
    ok = True
    why = ''
    n_put = n_marker = 0
    for p in ps:
        gets = _calls(p, 'get', '_request_n_queue')
        gens = _calls(p, '_generate_next_n')
        for g in gets:
            if p.outcome == 'cut':
                continue
            nxt = [e for e in gens if e.seq > g.seq]
            raised = [e for e in p.events if e.kind == 'raise' and e.seq > g.seq]
            if not nxt and not raised:
                ok, why = False, 'a credit taken from the queue is not turned into a batch'
            elif nxt and strip_epoch(nxt[0].data['args'][0].term)[0] not in ('awaited', 'pure', 'call'):
                ok, why = False, 'the batch size is not the credit taken from the queue'
        # every loop element is put into the delivery queue, once, before the complete test / next element
        elems = [e for e in p.events if e.kind == 'store' and e.data['target'][0] == 'local' and
                 strip_epoch(e.data['value'].term)[0] == 'unpack' and
                 strip_epoch(e.data['value'].term)[2] == 0 and gens and
                 strip_epoch(gens[0].data['value'].term) in _flat(strip_epoch(e.data['value'].term))]
        for el in elems:
            later = [e for e in p.events if e.seq > el.seq]
            nxt_el = [e.seq for e in elems if e.seq > el.seq]
            horizon = min(nxt_el + [10 ** 9])
            puts = [e for e in later if e.seq < horizon and e.kind == 'call' and
                    e.data.get('name') in ('put_nowait', 'put') and recv_attr(e) == '_queue']
            complete = p.outcome in ('return', 'raise') or nxt_el
            if complete and len(puts) != 1:
                ok, why = False, 'an element of the batch is put into the delivery queue %d times' % len(puts)
            elif puts:
                n_put += 1
                t = strip_epoch(puts[0].data['args'][0].term)
                el_src = strip_epoch(el.data['value'].term)[1]
                if not (t[0] == 'tuple' and len(t[1]) == 2 and
                        strip_epoch(t[1][0]) == ('unpack', el_src, 0) and
                        strip_epoch(t[1][1]) == ('unpack', el_src, 1)):
                    ok, why = False, 'what is queued for delivery is %s, not (payload, is_complete) of the element' % \
                        fmt_term(t)[:80]
                # after a complete element the feeder ends
                cc = [c for c in later if c.kind == 'cond' and c.data['key'][0] == 'truth' and
                      strip_epoch(c.data['key'][1]) == ('unpack', el_src, 1) and c.seq > puts[0].seq]
                if not cc:
                    ok, why = False, 'the complete flag of a queued element is not looked at'
                elif cc[0].data['value'] is True and p.outcome != 'return' and p.outcome != 'cut':
                    ok, why = False, 'the credit feeder goes on after a complete element'
                elif cc[0].data['value'] is True and p.outcome == 'return':
                    tail = [e for e in p.events if e.seq > cc[0].seq and e.kind == 'call' and
                            e.data.get('name') in ('get', '_generate_next_n')]
                    if tail:
                        ok, why = False, 'the credit feeder goes on after a complete element'
                elif cc[0].data['value'] is False and p.outcome == 'return' and not nxt_el:
                    tail = [e for e in p.events if e.seq > cc[0].seq and e.kind in ('call', 'loop')]
                    if not tail:
                        ok, why = False, 'the credit feeder ends after an element that is not complete'
        # exhaustion without a complete element: the completion marker
        fin = [e for e in p.events if e.kind == 'except' and 'FinishedIterator' in repr(e.data.get('exc').term
                                                                                         if e.data.get('exc') else '')]
        if fin:
            puts = [e for e in p.events if e.seq > fin[0].seq and e.kind == 'call' and
                    e.data.get('name') in ('put_nowait', 'put') and recv_attr(e) == '_queue']
            if len(puts) != 1:
                ok, why = False, 'exhaustion of the generator without a complete element queues no completion marker'
            else:
                n_marker += 1
                t = strip_epoch(puts[0].data['args'][0].term)
                if not (t[0] == 'tuple' and len(t[1]) == 2 and strip_epoch(t[1][1]) == ('const', True)):
                    ok, why = False, 'the completion marker is not flagged complete'
    rep.add(rule, 'StreamFromGenerator.queue_next_n / credit -> batch -> delivery queue', f,
            ok and n_put > 0, why or 'each credit becomes a batch, each element is queued once as (payload, complete), '
                                     'a complete element ends the feeder (%d paths)' % len(ps))
    # FinishedIterator is raised inside the (not inlined) batch generator: look at the handler statically
    import ast
    from ..index import walk_local
    handlers = [h for h in walk_local(f.node) if isinstance(h, ast.ExceptHandler) and h.type is not None and
                'FinishedIterator' in ast.unparse(h.type)]
    okm = False
    if len(handlers) == 1:
        body = handlers[0].body
        puts = [n for n in ast.walk(ast.Module(body=body, type_ignores=[])) if isinstance(n, ast.Call) and
                isinstance(n.func, ast.Attribute) and n.func.attr in ('put_nowait', 'put') and
                ast.unparse(n.func.value) == 'self._queue']
        if len(puts) == 1 and puts[0].args and isinstance(puts[0].args[0], ast.Tuple) and \
                len(puts[0].args[0].elts) == 2 and isinstance(puts[0].args[0].elts[1], ast.Constant) and \
                puts[0].args[0].elts[1].value is True:
            okm = True
    rep.add(rule, 'StreamFromGenerator.queue_next_n / exhaustion queues the completion marker', f, okm,
            'except FinishedIterator: one (…, True) put into the delivery queue' if okm else
            'when the generator ends without a complete element nothing (or no complete-flagged marker) is queued: '
            'the subscriber never sees the end of the stream')

    # ---- _generate_next_n (both variants): every value obtained is yielded once; exhaustion raises unless complete
    for cls in (K, A):
        g = cls.lookup('_generate_next_n')
        if g is None:
            raise AnalysisError('%s: %s._generate_next_n vanished' % (rule, cls.name))
        ok = True
        why = ''
        n_y = n_raise = 0
        for p in ctx.paths(g, cls, inline_depth=1, exc=('app',), no_inline={'async_range'}):
            took = [e for e in p.events if e.kind == 'call' and e.data.get('name') in ('next', '__anext__')]
            ys = [e for e in p.events if e.kind == 'yield']
            for t in took:
                tv = strip_epoch(t.data['value'].term)
                later_y = [y for y in ys if y.seq > t.seq and tv in _flat(strip_epoch(y.data['value'].term))]
                sentinel = [c for c in p.events if c.kind == 'cond' and c.seq > t.seq and c.data['key'][0] == 'is' and
                            c.data['value'] is True]
                failed = [e for e in p.events if e.kind == 'raise' and e.seq > t.seq]
                nxt = [e for e in took if e.seq > t.seq]
                complete = p.outcome in ('return', 'raise') or nxt
                if later_y:
                    n_y += 1
                    if len(later_y) != 1:
                        ok, why = False, 'a value taken from the generator is yielded %d times' % len(later_y)
                elif complete and not sentinel and not failed:
                    ok, why = False, 'a value taken from the generator is dropped'
            if p.outcome == 'raise' and 'FinishedIterator' in repr(p.value.term if p.value is not None else ''):
                n_raise += 1
        if n_raise == 0:
            # `except StopAsyncIteration:` is not an edge the interpreter takes; look at the handler itself
            import ast as _ast
            from ..index import walk_local as _wl
            for hnd in _wl(g.node):
                if isinstance(hnd, _ast.ExceptHandler) and hnd.type is not None and \
                        'StopAsyncIteration' in _ast.unparse(hnd.type):
                    for r in _ast.walk(hnd):
                        if isinstance(r, _ast.Raise) and r.exc is not None and \
                                'FinishedIterator' in _ast.unparse(r.exc):
                            n_raise += 1
        if n_raise == 0:
            ok, why = False, 'exhaustion is never reported (FinishedIterator): a generator that ends without a ' \
                             'complete element leaves the stream open'
        rep.add(rule, '%s._generate_next_n / every value yielded once, exhaustion reported' % cls.name, g,
                ok and n_y > 0, why or '%d yielding paths, %d exhaustion paths' % (n_y, n_raise))

    # ---- feed_subscriber
    f = K.lookup('feed_subscriber')
    ok = True
    why = ''
    n_el = 0
    for p in ctx.paths(f, K, inline_depth=0, exc=(), no_inline={'_send_to_subscriber', '_cancel_n_feeder'}):
        gets = _calls(p, 'get', '_queue')
        sends = _calls(p, '_send_to_subscriber')
        for gi, g in enumerate(gets):
            src = strip_epoch(g.data['value'].term)
            nxt = [e.seq for e in gets[gi + 1:]]
            horizon = min(nxt + [10 ** 9])
            mine = [s for s in sends if g.seq < s.seq < horizon]
            complete = p.outcome == 'return' or nxt
            if not complete and not mine:
                continue
            n_el += 1
            if len(mine) != 1:
                ok, why = False, 'an element taken from the delivery queue is handed to the subscriber %d times' % \
                    len(mine)
                continue
            a = [strip_epoch(x.term) for x in mine[0].data['args']] + \
                [strip_epoch(v.term) for v in mine[0].data.get('kwargs', {}).values()]
            if len(a) != 2 or not (a[0][0] == 'unpack' and a[0][2] == 0 and a[1][0] == 'unpack' and a[1][2] == 1 and
                                   src in _flat(a[0]) and src in _flat(a[1])):
                ok, why = False, 'the subscriber is not given (payload, is_complete) of the element taken'
            cc = [c for c in p.events if c.kind == 'cond' and c.data['key'][0] == 'truth' and c.seq > mine[0].seq and
                  c.seq < horizon and strip_epoch(c.data['key'][1])[0] == 'unpack' and
                  strip_epoch(c.data['key'][1])[2] == 1]
            if complete and not cc:
                ok, why = False, 'the delivery loop does not look at the complete flag'
            elif cc and cc[-1].data['value'] is True and nxt:
                ok, why = False, 'the delivery loop goes on after the complete element'
            elif cc and cc[-1].data['value'] is False and p.outcome == 'return' and not nxt:
                ok, why = False, 'the delivery loop ends after an element that is not complete'
    rep.add(rule, 'StreamFromGenerator.feed_subscriber / each queued element delivered once, loop ends on complete', f,
            ok and n_el > 0, why or '%d elements on the enumerated paths' % n_el)

    # ---- _send_to_subscriber
    f = K.lookup('_send_to_subscriber')
    pp = ('param', f.qualname, f.params()[1])
    pc = ('param', f.qualname, f.params()[2])
    ok = True
    why = ''
    n = 0
    for cval in (True, False):
        for p in ctx.paths(f, K, args={f.params()[2]: const(cval)}):
            if p.outcome != 'return':
                continue
            n += 1
            none = [c for c in p.events if c.kind == 'cond' and c.data['key'][0] == 'isnone' and
                    strip_epoch(c.data['key'][1]) == pp]
            is_none = none[-1].data['value'] if none else None
            nx = _calls(p, 'on_next')
            cp = _calls(p, 'on_complete')
            if is_none is True and cval:
                if len(cp) != 1 or nx:
                    ok, why = False, 'the completion marker is not turned into exactly one on_complete()'
            else:
                if len(nx) != 1 or cp:
                    ok, why = False, 'an element is not turned into exactly one on_next()'
                    continue
                a = [strip_epoch(x.term) for x in nx[0].data['args']] + \
                    [strip_epoch(v.term) for v in nx[0].data.get('kwargs', {}).values()]
                if len(a) != 2 or a[0] != pp or a[1] not in (pc, ('const', cval)):
                    ok, why = False, 'on_next is not given (payload, is_complete)'
    rep.add(rule, 'StreamFromGenerator._send_to_subscriber / marker -> on_complete, element -> on_next(payload, flag)',
            f, ok and n > 0, why or '%d paths' % n)


def rule_small_sources(ctx, rule):
    """EmptyStream / ErrorStream answer the first request with their single terminal signal; the queue-to-generator
    helper of the Rx adapters yields every dequeued value except the stop value, at which it ends."""
    rep = ctx.report
    for spec, sig, arg_attr in (('rsocket.streams.empty_stream:EmptyStream', 'on_complete', None),
                                ('rsocket.streams.error_stream:ErrorStream', 'on_error', '_exception')):
        K = ctx.repo.cls(spec)
        f = K.lookup('request')
        ok = f is not None
        n = 0
        if f is not None:
            for p in ctx.paths(f, K):
                if p.outcome != 'return':
                    continue
                n += 1
                calls = _calls(p, sig)
                others = [e for e in p.events if e.kind == 'call' and e.data.get('name') in (
                    'on_next', 'on_complete', 'on_error') and e not in calls]
                if len(calls) != 1 or others:
                    ok = False
                elif arg_attr and [strip_epoch(a.term) for a in calls[0].data['args']] != [('attr', ('self',),
                                                                                            arg_attr)]:
                    ok = False
        rep.add(rule, '%s.request / answers with one %s' % (K.name, sig), f or K, ok and n > 0,
                '%s once, nothing else' % sig if ok and n else 'the stream does not answer a request with exactly one '
                                                               '%s' % sig)
        # ... and says nothing before it is asked: a terminal signal at subscribe() is sent ahead of the request frame
        # of a channel whose requester uses this publisher (the requester subscribes its publisher first)
        fs_ = K.lookup('subscribe')
        quiet = True
        if fs_ is not None:
            for p in ctx.paths(fs_, K, inline_depth=2):
                if [e for e in p.events if e.kind == 'call' and e.data.get('name') in (
                        'on_next', 'on_complete', 'on_error')]:
                    quiet = False
        rep.add(rule, '%s.subscribe / no signal before demand' % K.name, fs_ or K, quiet,
                'subscribe() only hands the subscription over' if quiet else
                'subscribe() already sends the terminal signal: on a channel requester it is written before the '
                'REQUEST_CHANNEL frame and dropped by the peer')
    m = ctx.repo.module('rsocket.streams.helpers')
    fs = m.functions.get('async_generator_from_queue')
    if not fs:
        raise AnalysisError('%s: async_generator_from_queue vanished' % rule)
    f = fs[-1]
    stop = ('param', f.qualname, f.params()[1])
    ok = True
    why = ''
    n_y = n_stop = 0
    for p in ctx.paths(f, None, inline_depth=0):
        gets = _calls(p, 'get')
        ys = [e for e in p.events if e.kind == 'yield']
        for gi, g in enumerate(gets):
            v = ('awaited', strip_epoch(g.data['value'].term))
            nxt = [e.seq for e in gets[gi + 1:]]
            horizon = min(nxt + [10 ** 9])
            conds = [c for c in p.events if c.kind == 'cond' and g.seq < c.seq < horizon and c.data['key'][0] == 'is'
                     and stop in [strip_epoch(x) for x in c.data['key'][1:3] if isinstance(x, tuple)]]
            mine = [y for y in ys if g.seq < y.seq < horizon]
            if not conds:
                if p.outcome != 'cut' or mine:
                    ok, why = False, 'a dequeued value is not compared with the stop value'
                continue
            if conds[0].data['value'] is True:
                n_stop += 1
                if mine or nxt or p.outcome not in ('return',):
                    ok, why = False, 'the generator goes on after the stop value'
            else:
                if not mine and (nxt or p.outcome == 'return'):
                    ok, why = False, 'a dequeued value is dropped'
                elif mine:
                    n_y += 1
                    if len(mine) != 1 or v not in _flat(strip_epoch(mine[0].data['value'].term)) and \
                            strip_epoch(g.data['value'].term) not in _flat(strip_epoch(mine[0].data['value'].term)):
                        ok, why = False, 'what is yielded is not the dequeued value'
                if p.outcome == 'return' and not nxt:
                    ok, why = False, 'the generator ends without having seen the stop value'
    rep.add(rule, 'async_generator_from_queue / every dequeued value yielded, ends on the stop value', f,
            ok and n_y > 0 and n_stop > 0, why or '%d yields, %d stops on the enumerated paths' % (n_y, n_stop))


def _flat(t):
    out = []
    if isinstance(t, tuple):
        out.append(t)
        for x in t:
            out.extend(_flat(x))
    return out
