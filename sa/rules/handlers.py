"""Shared model of the stream-handler classes: roles, entry points, post-states, emitted frames.

Every handler entry point (frame_received per frame class and flag combination, the public methods, the
future callbacks and the methods of the helper subscriber a handler installs) is interpreted with the handler
object bound to the designated term ('H',), so that constant stores to its attributes made by one entry can be
fed as the pre-state of the next (typestate by re-entry)."""
import ast
import itertools
from typing import List, Dict, Optional, Tuple

from .. import AnalysisError
from .. import tables
from ..effects import (Slots, is_finish, is_gone, is_enq_send, is_enq_lease, signal_kind, is_cancel_call, build_class,
                       strip_epoch)
from ..index import ClassInfo, FuncInfo, walk_local
from ..interp import AVal, const, Path, Event

H_TERM = ('H',)
FRAME_TERM = ('param', 'frame')


class Entry:
    def __init__(self, owner: ClassInfo, name: str, func: FuncInfo, self_val: AVal, args: Dict[str, AVal],
                 heap: Dict, kind: str, frame_cls: Optional[ClassInfo] = None, flags: Optional[dict] = None,
                 helper: Optional[ClassInfo] = None):
        self.owner = owner
        self.name = name
        self.func = func
        self.self_val = self_val
        self.args = args
        self.heap = heap
        self.kind = kind
        self.frame_cls = frame_cls
        self.flags = flags or {}
        self.helper = helper
        self.is_event = True  # an externally triggered event (peer frame, public API, registered callback)

    def __repr__(self):
        return 'Entry(%s)' % self.name


class HandlerModel:
    def __init__(self, ctx):
        self.ctx = ctx
        self.repo = ctx.repo
        self.slots: Slots = ctx.slots
        self.handlers: List[ClassInfo] = self.slots.handler_classes
        self._roles: Dict[ClassInfo, Tuple[str, str]] = {}
        self._entries: Dict[ClassInfo, List[Entry]] = {}
        self._helpers: Dict[ClassInfo, List[Tuple[ClassInfo, Dict]]] = {}
        self._path_cache = {}
        for h in self.handlers:
            self._roles[h] = self._derive_role(h)

    # ------------------------------------------------------------------ roles
    def _derive_role(self, h: ClassInfo) -> Tuple[str, str]:
        # a requester is a handler whose own methods build a request frame (the marker base class `Requester` is what
        # the connection-loss loop looks at - C11.c decides that the two agree - so it is not used to derive the role)
        kinds = set()
        for f in self.own_methods(h):
            for p in self.ctx.paths(f, h, self_val=self.hval(h), inline_depth=6):
                for e in p.events:
                    c = build_class(e, self.slots)
                    if c is not None and c.name in tables.REQUEST_FRAME_INTERACTION:
                        kinds.add(tables.REQUEST_FRAME_INTERACTION[c.name])
        if len(kinds) > 1:
            raise AnalysisError('cannot derive the interaction of requester %s (builds %s)' % (h.name, kinds))
        if kinds:
            return kinds.pop(), 'requester'
        # responder: instantiated in a function whose frame parameter is annotated with a request frame class
        kinds = set()
        for f in self.repo.all_functions():
            for n in walk_local(f.node):
                if isinstance(n, ast.Call) and isinstance(n.func, (ast.Name, ast.Attribute)):
                    r = self.repo.resolve_expr(f.module, n.func, f.cls)
                    if r is h:
                        a = f.node.args
                        for x in a.posonlyargs + a.args:
                            t = self.repo.annotation_types(f.module, x.annotation, f.cls) or []
                            for c in t:
                                if isinstance(c, ClassInfo) and c.name in tables.REQUEST_FRAME_INTERACTION:
                                    kinds.add(tables.REQUEST_FRAME_INTERACTION[c.name])
        if len(kinds) != 1:
            raise AnalysisError('cannot derive the interaction of responder %s (%s)' % (h.name, kinds))
        return kinds.pop(), 'responder'

    def role(self, h: ClassInfo) -> Tuple[str, str]:
        return self._roles[h]

    def hval(self, h: ClassInfo) -> AVal:
        return AVal(H_TERM, [h], exact=True)

    def own_methods(self, h: ClassInfo) -> List[FuncInfo]:
        """Methods of the role: defined in h or in its bases that are themselves (abstract) handler classes,
        i.e. subclasses of StreamHandler other than StreamHandler itself."""
        out = []
        seen = set()
        for k in h.mro():
            if k is self.slots.StreamHandler or not k.is_subclass_of(self.slots.StreamHandler):
                continue
            for name, f in k.methods.items():
                if name in seen:
                    continue
                seen.add(name)
                out.append(f)
        return out

    # ------------------------------------------------------------------ helpers (subscriber a handler installs)
    def helpers(self, h: ClassInfo) -> List[Tuple[ClassInfo, Dict]]:
        if h in self._helpers:
            return self._helpers[h]
        found: Dict[ClassInfo, Dict] = {}
        for f in self.own_methods(h):
            if f.name in ('frame_received',):
                continue
            for p in self.ctx.paths(f, h, self_val=self.hval(h), inline_depth=6):
                for e in p.events:
                    if e.kind == 'new' and isinstance(e.data['cls'], ClassInfo) and \
                            e.data['cls'].is_subclass_of(self.slots.Subscriber):
                        obj = e.data['value'].term
                        heap = {}
                        for s in p.events:
                            if s.kind == 'store' and s.data['target'][0] == 'attr' and s.data['target'][1] == obj:
                                v = s.data['value']
                                heap[(('self',), s.data['target'][2])] = v
                        found.setdefault(e.data['cls'], heap)
        self._helpers[h] = list(found.items())
        return self._helpers[h]

    # ------------------------------------------------------------------ entries
    def _bool_param_combos(self, f: FuncInfo) -> List[Dict[str, AVal]]:
        a = f.node.args
        params = a.posonlyargs + a.args
        defaults = [None] * (len(params) - len(a.defaults)) + list(a.defaults)
        names = []
        for p, d in zip(params, defaults):
            if d is not None and isinstance(d, ast.Constant) and (isinstance(d.value, bool) or d.value is None) and \
                    p.arg not in ('self',):
                ann = ast.unparse(p.annotation) if p.annotation is not None else ''
                if isinstance(d.value, bool) or ann == 'bool':
                    names.append(p.arg)
        combos = []
        for vals in itertools.product([False, True], repeat=len(names)):
            combos.append({n: const(v) for n, v in zip(names, vals)})
        return combos or [{}]

    def frame_flag_combos(self, t: ClassInfo) -> List[dict]:
        flags = tables.FRAME_FLAGS.get(t.name, {})
        names = [n for n in ('flags_complete', 'flags_next') if n in flags]
        out = []
        for vals in itertools.product([False, True], repeat=len(names)):
            out.append(dict(zip(names, vals)))
        return out or [{}]

    def entries(self, h: ClassInfo) -> List[Entry]:
        if h in self._entries:
            return self._entries[h]
        out: List[Entry] = []
        fr = h.lookup('frame_received')
        if fr is None:
            raise AnalysisError('%s has no frame_received' % h.name)
        for tname, t in sorted(self.slots.frame_classes.items()):
            if self.repo.is_abstract(t) and t.name in ('RequestFrame', 'ExtendedFrame'):
                continue
            for flags in self.frame_flag_combos(t):
                heap = {(FRAME_TERM, k): const(v) for k, v in flags.items()}
                label = '%s.frame_received/%s' % (h.name, t.name)
                if flags:
                    label += '[' + ','.join(k[6:] if v else '!' + k[6:] for k, v in sorted(flags.items())) + ']'
                out.append(Entry(h, label, fr, self.hval(h), {'frame': AVal(FRAME_TERM, [t], exact=True)}, heap,
                                 'frame', t, flags))
        callbacks = self._registered_callbacks(h)
        for f in self.own_methods(h):
            if f.name in ('frame_received', '__init__') or f.is_property():
                continue
            for combo in self._bool_param_combos(f):
                label = '%s.%s' % (h.name, f.name)
                if combo:
                    label += '(' + ','.join('%s=%s' % (k, v.const) for k, v in sorted(combo.items())) + ')'
                en = Entry(h, label, f, self.hval(h), combo, {}, 'method')
                en.is_event = (not f.name.startswith('_')) or f.name in callbacks
                out.append(en)
        for hc, heap in self.helpers(h):
            for name, f in sorted(hc.methods.items()):
                if name == '__init__':
                    continue
                for combo in self._bool_param_combos(f):
                    label = '%s/%s.%s' % (h.name, hc.name, name)
                    if combo:
                        label += '(' + ','.join('%s=%s' % (k, v.const) for k, v in sorted(combo.items())) + ')'
                    out.append(Entry(h, label, f, AVal(('self',), [hc], exact=True), combo, dict(heap), 'helper',
                                     helper=hc))
        self._entries[h] = out
        return out

    def _registered_callbacks(self, h: ClassInfo):
        """Names of methods of h passed as self.<name> to add_done_callback / call_soon (deferred entry points)."""
        out = set()
        for f in self.own_methods(h):
            for n in walk_local(f.node):
                if isinstance(n, ast.Call) and isinstance(n.func, ast.Attribute) and n.func.attr in (
                        'add_done_callback', 'call_soon', 'call_later'):
                    for a in n.args:
                        if isinstance(a, ast.Attribute) and isinstance(a.value, ast.Name) and a.value.id == 'self':
                            out.add(a.attr)
        return out

    def run(self, entry: Entry, pre: Optional[Dict[str, object]] = None, exc=()) -> List[Path]:
        key = (entry.name, tuple(sorted((pre or {}).items())), tuple(sorted(exc)))
        if key in self._path_cache:
            return self._path_cache[key]
        heap = dict(entry.heap)
        for k, v in (pre or {}).items():
            heap[(H_TERM, k)] = const(v)
        cls = entry.helper if entry.kind == 'helper' else entry.owner
        ps = self.ctx.paths(entry.func, cls, args=entry.args, self_val=entry.self_val, initial_heap=heap, exc=exc)
        self._path_cache[key] = ps
        return ps

    # ------------------------------------------------------------------ path facts
    def post_state(self, p: Path) -> Dict[str, object]:
        out = {}
        for e in p.events:
            if e.kind == 'store' and e.data['target'][0] == 'attr' and e.data['target'][1] == H_TERM:
                v = e.data['value']
                if v.is_const() and isinstance(v.const, (bool, type(None), int)):
                    out[e.data['target'][2]] = v.const
                else:
                    out.pop(e.data['target'][2], None)
        return out

    def finished(self, p: Path) -> bool:
        return any(is_gone(e, self.slots) for e in p.events)

    def emitted(self, p: Path) -> List[Tuple[str, Optional[bool], Event]]:
        """Frames enqueued along the path: (frame class name, complete flag or None, enqueue event)."""
        out = []
        for e in p.events:
            if is_enq_send(e, self.slots) or is_enq_lease(e, self.slots):
                args = e.data.get('args') or []
                if not args:
                    continue
                t = args[0]
                cname = None
                if t.types and len(t.types) == 1:
                    c = next(iter(t.types))
                    if isinstance(c, ClassInfo) and self.slots.is_frame_class(c):
                        cname = c.name
                if cname is None:
                    out.append(('?', None, e))
                    continue
                complete = self.frame_attr_before(p, t.term, 'flags_complete', e.seq)
                out.append((cname, complete, e))
        return out

    @staticmethod
    def frame_attr_before(p: Path, obj_term, attr: str, seq: int):
        val = None
        for s in p.events:
            if s.seq >= seq:
                break
            if s.kind == 'store' and s.data['target'][0] == 'attr' and s.data['target'][1] == obj_term and \
                    s.data['target'][2] == attr:
                v = s.data['value']
                val = v.const if v.is_const() else '?'
        return val

    def signals(self, p: Path) -> List[Tuple[str, Event]]:
        """Call-outs to the downstream subscriber: (kind, event); kind 'next!' marks on_next with is_complete true."""
        out = []
        for e in p.events:
            k = signal_kind(e)
            if k is None:
                continue
            if k == 'next':
                ic = e.data.get('kwargs', {}).get('is_complete')
                if ic is None and len(e.data.get('args') or []) >= 2:
                    ic = e.data['args'][1]
                if ic is not None and ic.is_const() and ic.const:
                    k = 'next!'
                elif ic is not None and not ic.is_const():
                    k = 'next?'
            out.append((k, e))
        return out

    def producer_cancelled(self, p: Path) -> bool:
        return any(is_cancel_call(e) for e in p.events)

    def recv_class(self, h: ClassInfo, entry: Entry) -> Optional[str]:
        if entry.kind != 'frame':
            return None
        inter, role = self.role(h)
        t = entry.frame_cls.name
        c = entry.flags.get('flags_complete')
        return tables.RECV_TERMINAL.get((inter, role, t, None)) or (
            tables.RECV_TERMINAL.get((inter, role, t, True)) if c else None)

    def emit_class(self, h: ClassInfo, cname: str, complete) -> Optional[str]:
        inter, role = self.role(h)
        r = tables.EMIT_TERMINAL.get((inter, role, cname, None))
        if r:
            return r
        if complete is True:
            return tables.EMIT_TERMINAL.get((inter, role, cname, True))
        return None


def model(ctx) -> HandlerModel:
    if 'handler_model' not in ctx.cache:
        ctx.cache['handler_model'] = HandlerModel(ctx)
    return ctx.cache['handler_model']
