"""C07 Every interaction terminates at most once at the API."""
import ast

from .. import AnalysisError
from ..effects import (is_gone, gone_key, is_resolve, is_enq_send, is_enq_lease, signal_kind, is_finish, strip_epoch, term_root)
from ..index import walk_local, ClassInfo
from ..interp import AVal, const
from . import COMMON_ASSUMPTIONS
from .handlers import model, H_TERM

EXPLANATION = (
    'Decides the structural clauses of "terminates at most once": (a) every set_result/set_exception on a future '
    'that is handed to the application (discovered: returned through the public request API) is dominated, with no '
    'suspension point in between, by a done()/cancelled() test of that same future - necessary because the '
    'application may cancel it at any moment and the cancel callback is deferred; (b) typestate of the handler '
    'classes that drive a subscriber: on every enumerated path of every entry point at most one terminal signal '
    '(on_complete, on_error, on_next with is_complete) is issued and none after it, and after a terminal signal '
    'either the stream-table entry is removed on that path or - fed back as pre-state of the next frame (typestate '
    'by re-entry) - a later ERROR frame (the synthetic one delivered on connection loss is always possible) produces '
    'no signal; (c) on_subscribe precedes the enqueue of the request frame in every requester subscribe(), and the '
    'channel responder is subscribed before its first frame is dispatched; (d) stop_all_streams iterates a snapshot '
    'of the table and removes each entry in the iteration that failed it. Not decided: the behaviour over all peer '
    'histories and schedules beyond what these typestates imply.')
EXPLANATION_ADDED = ("(e) resolved at least once: every exit of the client's reconnect listener fails the streams still registered and close() cancels that task; nothing unprotected precedes stop_all_streams() in the close sequence; the library's own sent-futures obey the same done() guard; resolve sites include set_result/set_exception taken as a value and called through a helper. Every exit of the receiver (EOF, transport error, cancellation) reaches the close sequence that fails the pending requests (shared C11.a). The awaitable collector releases its waiter on the completing element, on_complete and on_error, and run() raises the kept error or returns the collection (shared C01.h). (C07.e) Typestate of the generator-backed publishers by re-entry: in every state the delivering task can end in after the completing element, a further request(n) starts no new delivering task, so the subscriber gets nothing after its terminal signal.")
EXPLANATION = EXPLANATION.replace(' Not decided', ' ' + EXPLANATION_ADDED + ' Not decided', 1) \
    if ' Not decided' in EXPLANATION else EXPLANATION + ' ' + EXPLANATION_ADDED
ASSUMPTIONS = COMMON_ASSUMPTIONS + [
    'a legal peer sends nothing on a direction it has completed; the synthetic ERROR of the close sequence can '
    'arrive in any state',
]


# ------------------------------------------------------------------------------------------------ C07.a

def app_visible_future_attrs(ctx):
    """Attribute names of futures returned to the application through the public request API of RSocketBase."""
    if 'visible_futures' in ctx.cache:
        return ctx.cache['visible_futures']
    slots = ctx.slots
    attrs = {}
    work = [f for n, f in slots.RSocketBase.methods.items() if not n.startswith('_')]
    seen = set()
    depth = {f: 0 for f in work}
    while work:
        f = work.pop()
        if f in seen:
            continue
        seen.add(f)
        from ..astutil import returned_exprs
        values = list(returned_exprs(f.node))
        # a returned local stands for what it was assigned (`sent = frame.sent_future; ...; return sent`)
        for v in list(values):
            if isinstance(v, ast.Name):
                for n in walk_local(f.node):
                    if isinstance(n, ast.Assign) and any(isinstance(t, ast.Name) and t.id == v.id for t in n.targets):
                        values.append(n.value)
        for v in values:
            if isinstance(v, ast.Await):
                v = v.value
            # a task / shield around the future still resolves with it
            while isinstance(v, ast.Call) and v.args and (
                    isinstance(v.func, ast.Name) and v.func.id in ('ensure_future', 'create_task', 'shield') or
                    isinstance(v.func, ast.Attribute) and v.func.attr in ('ensure_future', 'create_task', 'shield',
                                                                          'wait_for')):
                v = v.args[0]
            if isinstance(v, ast.Await):
                v = v.value
            if isinstance(v, ast.Attribute):
                attrs.setdefault(v.attr, f)
            elif isinstance(v, ast.Call) and isinstance(v.func, ast.Attribute) and depth[f] < 2:
                if isinstance(v.func.value, ast.Name) and v.func.value.id == 'self' and f.cls is not None and \
                        f.cls.lookup(v.func.attr) is not None:
                    # a helper of the same class that hands the future back
                    g = f.cls.lookup(v.func.attr)
                    depth.setdefault(g, depth[f] + 1)
                    work.append(g)
                    continue
                for c in ctx.repo.classes_defining(v.func.attr):
                    if c.is_subclass_of(slots.StreamHandler):
                        g = c.methods[v.func.attr]
                        depth.setdefault(g, depth[f] + 1)
                        work.append(g)
    ctx.cache['visible_futures'] = attrs
    return attrs


def resolve_sites(ctx):
    """Functions containing set_result/set_exception on an application-visible future attribute."""
    attrs = app_visible_future_attrs(ctx)
    out = []
    for f in ctx.repo.all_functions():
        if not f.module.name.startswith('rsocket.') or f.module.name.startswith('rsocket.cli'):
            continue
        called = set()
        for n in walk_local(f.node):
            if isinstance(n, ast.Call) and isinstance(n.func, ast.Attribute) and \
                    n.func.attr in ('set_result', 'set_exception') and isinstance(n.func.value, ast.Attribute) and \
                    n.func.value.attr in attrs:
                out.append((f, n))
                called.add(id(n.func))
        # the method taken as a value (`resolver = self._future.set_result`, or passed to a helper) and called later
        for n in walk_local(f.node):
            if isinstance(n, ast.Attribute) and id(n) not in called and n.attr in ('set_result', 'set_exception') and \
                    isinstance(n.value, ast.Attribute) and n.value.attr in attrs and isinstance(n.ctx, ast.Load):
                out.append((f, n))
    return out


def check_guarded_resolve(ctx, rule, only_module=None, skip_module=None):
    rep = ctx.report
    attrs = app_visible_future_attrs(ctx)
    rep.require(rule, 'application-visible future attributes', len(attrs), 2)
    sites = resolve_sites(ctx)
    rep.require(rule, 'resolve sites on application-visible futures', len(sites), 3)
    by_func = {}
    for f, n in sites:
        by_func.setdefault(f, []).append(n)
    for f, nodes in by_func.items():
        if only_module and f.module.name not in only_module:
            continue
        if skip_module and f.module.name in skip_module:
            continue
        classes = [None]
        if f.cls is not None:
            classes = ctx.repo.concrete_subclasses(f.cls) or [f.cls]
            classes = classes[:1] if f.cls.is_subclass_of(ctx.slots.StreamHandler) else classes
        for n in nodes:
            verdicts = []
            as_value = isinstance(n, ast.Attribute)
            for c in classes:
                for p in ctx.paths(f, c, exc=(), inline_depth=3 if as_value else 2):
                    for e in p.events:
                        if not as_value and e.kind == 'call' and e.node is n and e.depth == 1:
                            verdicts.append(_guarded(p, e))
                        elif as_value and e.kind == 'call' and e.data.get('name') == n.attr and \
                                e.data.get('callee', {}).get('bound') and e.data.get('recv') is not None and \
                                strip_epoch(e.data['recv'].term)[0] == 'attr' and \
                                strip_epoch(e.data['recv'].term)[2] == n.value.attr:
                            verdicts.append(_guarded(p, e))
            fn = n if as_value else n.func
            construct = '%s / %s.%s' % (f.short, ast.unparse(fn.value), fn.attr)
            if not verdicts:
                rep.note('%s: site %s not reached on any enumerated path' % (rule, construct))
                continue
            bad = [v for v in verdicts if v is not True]
            if bad:
                rep.bad(rule, construct, (f.file, n.lineno),
                        'future may already be done/cancelled when it is resolved: %s' % bad[0],
                        extra={'paths_reaching': len(verdicts), 'unguarded_paths': len(bad)})
            else:
                rep.ok(rule, construct, (f.file, n.lineno),
                       'dominated by a done()/cancelled() test of the same future with no suspension in between '
                       '(%d paths)' % len(verdicts))


def _guarded(p, ev):
    recv = strip_epoch(ev.data['recv'].term)
    guard_seq = None
    for e in p.events:
        if e.seq >= ev.seq:
            break
        if e.kind == 'cond':
            k = e.data['key']
            if k[0] == 'truth' and isinstance(k[1], tuple) and k[1] and k[1][0] == 'pure' and k[1][1] in (
                    'done', 'cancelled') and strip_epoch(k[1][2]) == recv:
                if k[1][1] == 'done' and e.data['value'] is False:
                    guard_seq = e.seq
                # cancelled() False does not exclude a result already set; only done() is a sufficient guard
    if guard_seq is None:
        return 'no done() test of %r on the path before the resolve at line %s' % (_fmt(recv), ev.line)
    for e in p.events:
        if guard_seq < e.seq < ev.seq and e.kind in ('await', 'yield'):
            return 'suspension point at line %s between the done() test and the resolve at line %s' % (e.line, ev.line)
    return True


def _fmt(t):
    from ..interp import fmt_term
    return fmt_term(t)


def rule_a(ctx):
    check_guarded_resolve(ctx, 'C07.a', skip_module={'rsocket.rsocket_base'})


# ------------------------------------------------------------------------------------------------ C07.b

TERMINAL = ('complete', 'error', 'next!')


def init_bools(ctx, m, h, constructed=False):
    """The state of handler class h when its stream is open: the constant bool attributes its constructor establishes
    and, for a requester whose subscribe() writes the request frame, what that path of subscribe() changes (a requester
    may keep a 'request frame written' mark).  constructed=True: the constructor's state alone."""
    key = ('init_bools', h, constructed)
    if key in ctx.cache:
        return ctx.cache[key]
    init = h.lookup('__init__')
    out = {}
    if init is not None:
        ps = ctx.paths(init, h, self_val=m.hval(h), inline_depth=6)
        ret = [p for p in ps if p.outcome == 'return']
        if ret:
            out = {k: v for k, v in m.post_state(ret[0]).items() if isinstance(v, bool)}
    if not constructed and m.role(h)[1] == 'requester':
        sub = [e for e in m.entries(h) if e.kind == 'method' and e.func.node.name == 'subscribe']
        if sub:
            opened = [p for p in m.run(sub[0], dict(out)) if p.outcome == 'return' and m.emitted(p)]
            if opened:
                posts = [{k: v for k, v in m.post_state(q).items() if isinstance(v, bool)} for q in opened]
                agreed = {k: v for k, v in posts[0].items() if all(q.get(k) is v for q in posts)}
                # what every request-writing path of subscribe() leaves behind (a channel's other flags differ with
                # the presence of a publisher / subscriber and keep the constructor's value)
                out = dict(out)
                out.update({k: v for k, v in agreed.items() if out.get(k) is not v and k not in out or
                            (k in out and out[k] is not v and all(q.get(k) is v for q in posts))})
    ctx.cache[key] = out
    return out


def rule_b(ctx):
    rep = ctx.report
    m = model(ctx)
    subjects = 0
    for h in m.handlers:
        entries = m.entries(h)
        signalling = False
        pre0 = init_bools(ctx, m, h)
        for en in entries:
            if en.kind == 'helper':
                continue
            paths = m.run(en, pre0)
            sig_paths = [(p, m.signals(p)) for p in paths]
            if not any(s for _, s in sig_paths):
                continue
            signalling = True
            # (i) at most one terminal per path, nothing after it
            bad = None
            for p, sigs in sig_paths:
                terms = [i for i, (k, _) in enumerate(sigs) if k in TERMINAL]
                if len(terms) > 1:
                    bad = 'two terminal signals on one path (lines %s)' % [sigs[i][1].line for i in terms]
                elif terms and terms[0] != len(sigs) - 1:
                    bad = 'signal at line %s after the terminal signal at line %s' % (
                        sigs[terms[0] + 1][1].line, sigs[terms[0]][1].line)
                elif any(k == 'next?' for k, _ in sigs):
                    bad = None  # conditional terminal handled by predicate consistency of the flag itself
            construct = en.name
            if bad:
                rep.bad('C07.b', construct + ' / single-terminal', en.func, bad)
            else:
                rep.ok('C07.b', construct + ' / single-terminal', en.func,
                       '%d paths, at most one terminal signal and none after it' % len(paths))
            # (ii) after a terminal signal: entry removed, or a later ERROR is silent (typestate by re-entry)
            if en.kind != 'frame':
                continue
            for p, sigs in sig_paths:
                if p.outcome != 'return' or not any(k in TERMINAL for k, _ in sigs):
                    continue
                if m.finished(p):
                    continue
                post = dict(pre0)
                post.update(m.post_state(p))
                # what the close sequence does to a stream that is still registered: the synthetic ERROR (for a
                # requester) and dispose() (for whoever holds a producer)
                for en2 in entries:
                    is_err = en2.kind == 'frame' and en2.frame_cls.name == 'ErrorFrame'
                    is_dispose = en2.kind == 'method' and en2.func.name == 'dispose'
                    if not (is_err or is_dispose):
                        continue
                    later = [s for p2 in m.run(en2, post) for s in m.signals(p2) if s[0] != 'subscribe']
                    c2 = '%s then %s' % (en.name, 'ErrorFrame' if is_err else 'dispose()')
                    if is_dispose:
                        if later:
                            rep.bad('C07.b', c2, en2.func,
                                    'after the terminal signal at line %s the stream stays registered (state %s) and '
                                    'dispose() - called for it by the close sequence - signals the subscriber again at '
                                    'line %s' % ([e.line for k, e in sigs if k in TERMINAL][0], _st(post),
                                                 later[0][1].line))
                        else:
                            rep.ok('C07.b', c2, en2.func, 'dispose() produces no signal in state %s' % _st(post))
                        continue
                    if later:
                        rep.bad('C07.b', c2, en2.func,
                                'after the terminal signal at line %s the stream stays registered (state %s) and a '
                                'later ERROR frame - e.g. the synthetic one of the close sequence - signals the '
                                'subscriber again at line %s' % (
                                    [e.line for k, e in sigs if k in TERMINAL][0], _st(post), later[0][1].line))
                    else:
                        rep.ok('C07.b', c2, en2.func,
                               'stream stays registered in state %s; a later ERROR produces no signal' % _st(post))
                # ... and whatever else can still happen to the registered handler - a frame of any type, a signal of
                # its local publisher, a call of the application - reaches the subscriber no more
                again = None
                for en2 in entries:
                    if (en2.kind == 'frame' and en2.frame_cls.name == 'ErrorFrame') or \
                            (en2.kind == 'method' and en2.func.name in ('dispose', 'subscribe')):
                        continue
                    if en2.kind == 'frame' and en2.frame_cls.name in (
                            'RequestChannelFrame', 'RequestStreamFrame', 'RequestResponseFrame',
                            'RequestFireAndForgetFrame'):
                        continue  # the frame that created the handler: a second one for a live id is rejected (C13.d)
                    if en2.kind == 'method' and not en2.is_event:
                        continue  # a private step of another entry, covered where it is called
                    for p2 in m.run(en2, post):
                        later = [s for s in m.signals(p2) if s[0] != 'subscribe']
                        if later and again is None:
                            again = (en2, later[0][1].line)
                c3 = '%s / nothing signals the subscriber after it' % en.name
                if again is not None:
                    rep.bad('C07.b', c3, again[0].func,
                            'after the terminal signal at line %s the stream stays registered (state %s) and %s '
                            'signals the subscriber again at line %s' % (
                                [e.line for k, e in sigs if k in TERMINAL][0], _st(post), again[0].name, again[1]))
                else:
                    rep.ok('C07.b', c3, en.func, 'no entry of the handler signals in state %s' % _st(post))
        if signalling:
            subjects += 1
    rep.require('C07.b', 'handler classes that signal a subscriber', subjects, 3)


def _st(d):
    return '{' + ', '.join('%s=%s' % (k, v) for k, v in sorted(d.items())) + '}'


# ------------------------------------------------------------------------------------------------ C07.c

def rule_c(ctx):
    rep = ctx.report
    m = model(ctx)
    n = 0
    for h in m.handlers:
        inter, role = m.role(h)
        if role != 'requester':
            continue
        sub = h.lookup('subscribe')
        if sub is None:
            continue
        n += 1
        paths = ctx.paths(sub, h, self_val=m.hval(h))
        bad = None
        reached = 0
        for p in paths:
            first_enq = None
            first_sub = None
            for e in p.events:
                if first_enq is None and (is_enq_send(e, ctx.slots) or is_enq_lease(e, ctx.slots)):
                    first_enq = e
                if first_sub is None and signal_kind(e) == 'subscribe':
                    first_sub = e
            if first_enq is not None:
                reached += 1
                if first_sub is None:
                    # a None subscriber (channel without local subscriber) has nothing to be told
                    continue
                if first_sub.seq > first_enq.seq:
                    bad = 'request enqueued at line %s before on_subscribe at line %s' % (first_enq.line,
                                                                                          first_sub.line)
        c = '%s.subscribe / on_subscribe before request' % h.name
        if reached == 0:
            raise AnalysisError('C07.c: %s.subscribe never enqueues a request frame' % h.name)
        if bad:
            rep.bad('C07.c', c, sub, bad)
        else:
            rep.ok('C07.c', c, sub, 'on_subscribe precedes the request enqueue on %d paths' % reached)
    rep.require('C07.c', 'requester subscribe methods', n, 2)
    # channel responder: subscribe(subscriber) before the first frame_received
    f = ctx.repo.func('rsocket.rsocket_base:RSocketBase.handle_request_channel')
    ok = None
    for p in ctx.paths(f, ctx.slots.RSocketServer, inline_depth=1):
        names = [(e.data.get('name'), e) for e in p.events if e.kind == 'call']
        si = [i for i, (nm, e) in enumerate(names) if nm == 'subscribe']
        fi = [i for i, (nm, e) in enumerate(names) if nm == 'frame_received']
        if fi:
            ok = bool(si) and si[0] < fi[0] if ok is None else ok and bool(si) and si[0] < fi[0]
    if ok is None:
        raise AnalysisError('C07.c: handle_request_channel never dispatches the request frame')
    rep.add('C07.c', 'RSocketBase.handle_request_channel / subscribe before first frame', f, ok,
            'the channel responder is given its subscriber before frame_received(frame)' if ok else
            'frame_received is called before subscribe(subscriber)')


# ------------------------------------------------------------------------------------------------ C07.d

def rule_d(ctx):
    rep = ctx.report
    f = ctx.repo.func('rsocket.stream_control:StreamControl.stop_all_streams')
    loops = [n for n in walk_local(f.node) if isinstance(n, ast.For)]
    if len(loops) != 1:
        raise AnalysisError('C07.d: expected one loop in stop_all_streams, found %d' % len(loops))
    it = loops[0].iter
    snapshot = isinstance(it, ast.Call) and isinstance(it.func, ast.Name) and it.func.id in ('list', 'tuple', 'dict',
                                                                                             'sorted')
    rep.add('C07.d', 'StreamControl.stop_all_streams / snapshot', (f.file, loops[0].lineno), snapshot,
            'the loop iterates a copy of the table (the body removes entries)' if snapshot else
            'the loop iterates the live table while its body removes entries')
    # every iteration that completes normally removes the entry it handled
    paths = ctx.paths(f, ctx.slots.StreamControl, inline_depth=2, no_inline={'frame_received', 'dispose'})
    it_paths = [p for p in paths if any(e.kind == 'loop' and e.data.get('phase') == 'enter' for e in p.events)]
    ok = bool(it_paths)
    for p in it_paths:
        target_terms = set()
        for e in p.events:
            if e.kind == 'store' and e.data['target'][0] == 'local' and e.node is loops[0]:
                target_terms.add(e.data['value'].term)
        fin = [gone_key(e, ctx.slots) for e in p.events if is_gone(e, ctx.slots)]
        if p.outcome == 'return' and not fin:
            ok = False
        for a in fin:
            if a not in target_terms:
                ok = False
    rep.add('C07.d', 'StreamControl.stop_all_streams / finish each', f, ok,
            'each handled entry is removed, under the key of that entry, in the same iteration' if ok else
            'an iteration can complete without removing the entry it handled (or removes another key)')


def rule_e(ctx):
    """Resolved at least once when the application closes the client or the connection ends (shared C11.h, C11.b), and
    the library's own futures (sent-futures of queued frames) obey the same at-most-once guard (C09.e): an
    InvalidStateError there aborts the close sequence before the pending requests are failed."""
    from .c11 import rule_h, rule_b2, rule_a as c11a
    rule_h(ctx)
    rule_b2(ctx)
    # every way the receiver can end (EOF, transport error, cancellation) reaches the close sequence that fails the
    # pending requests (shared C11.a): "resolved exactly once" includes "at least once" when the link breaks
    c11a(ctx)
    # the awaitable adapter resolves its caller once: with the collected elements or with the stream's error
    from .awaitable import rule_collector
    rule_collector(ctx, 'C01.h')
    check_guarded_resolve(ctx, 'C09.e', only_module={'rsocket.rsocket_base'})


def rule_genpub(ctx):
    """A completed generator-backed publisher does not start delivering again on a late request(n) (typestate by
    re-entry, rules/genpublisher.py)."""
    from .genpublisher import rule_completed_publisher_stays_completed
    rule_completed_publisher_stays_completed(ctx, 'C07.e')
    from .genpublisher import rule_failure_stops_delivery_first
    rule_failure_stops_delivery_first(ctx, 'C07.e')



def rule_error_conversion(ctx):
    """The error a requester's subscriber / future is terminated with is the error the peer sent: code and text survive error_frame_to_exception (shared C12.l)."""
    from .c12 import rule_error_conversion as conv
    conv(ctx, 'C12.l')



def rule_on_subscribe_first(ctx, rule='C07.f'):
    """C07.f  on_subscribe is the first signal: in every subscribe(subscriber) of a library publisher that delivers
    on_subscribe - itself or through super().subscribe(...) - that delivery precedes every statement that hands the
    subscriber (bare or wrapped in an adapter) to a foreign object, because a source that emits synchronously while it
    is being subscribed (from_iterable, empty, throw, a replaying subject) would otherwise reach the subscriber with
    elements and the terminal signal before on_subscribe, and with on_subscribe after the terminal signal."""
    rep = ctx.report
    repo = ctx.repo

    def delivers(f, depth=0):
        """Line of the first statement of f that delivers on_subscribe to the subscriber, or None."""
        sub = [p for p in f.params() if p != 'self']
        if not sub:
            return None
        sub = sub[0]
        best = None
        for n in walk_local(f.node):
            if not isinstance(n, ast.Call) or not isinstance(n.func, ast.Attribute):
                continue
            hit = False
            if n.func.attr == 'on_subscribe':
                hit = True
            elif n.func.attr == 'subscribe' and isinstance(n.func.value, ast.Call) and \
                    isinstance(n.func.value.func, ast.Name) and n.func.value.func.id == 'super' and f.cls is not None \
                    and depth < 4:
                for k in f.cls.mro()[1:]:
                    g = k.methods.get('subscribe')
                    if g is not None:
                        hit = delivers(g, depth + 1) is not None
                        break
            if hit and (best is None or n.lineno < best):
                best = n.lineno
        return best

    def mentions(e, name):
        return any(isinstance(x, ast.Name) and x.id == name for x in ast.walk(e))

    n = 0
    for k in repo.all_classes():
        if not k.module.name.startswith(('rsocket.', 'reactivestreams.')) or k.module.name.startswith('rsocket.cli'):
            continue
        f = k.methods.get('subscribe')
        if f is None or f.is_async:
            continue
        params = [p for p in f.params() if p != 'self']
        if len(params) != 1:
            continue
        sub = params[0]
        h = delivers(f)
        if h is None:
            continue
        n += 1
        escapes = []
        # locals that hold the subscriber or an adapter built around it
        names = {sub}
        for _ in range(3):
            for a in walk_local(f.node):
                if isinstance(a, ast.Assign) and len(a.targets) == 1 and isinstance(a.targets[0], ast.Name) and \
                        any(mentions(a.value, x) for x in names):
                    names.add(a.targets[0].id)
        for c in walk_local(f.node):
            if not isinstance(c, ast.Call):
                continue
            fn = c.func
            if isinstance(fn, ast.Attribute):
                recv = fn.value
                own = isinstance(recv, ast.Name) and recv.id in ('self', sub) or \
                    isinstance(recv, ast.Call) and isinstance(recv.func, ast.Name) and recv.func.id == 'super' or \
                    isinstance(recv, ast.Attribute) and isinstance(recv.value, ast.Name) and recv.value.id == 'self' \
                    and fn.attr == 'on_subscribe'
                if own:
                    continue
            elif isinstance(fn, ast.Name) and (fn.id[:1].isupper() or fn.id in ('isinstance', 'cast', 'id', 'type')):
                continue  # building an adapter does not hand the subscriber to a running source
            if any(mentions(a, x) for x in names for a in list(c.args) + [kw.value for kw in c.keywords]):
                escapes.append(c)
        early = [c for c in escapes if c.lineno < h]
        rep.add(rule, '%s.subscribe / on_subscribe before the subscriber reaches a source' % k.name, f, not early,
                'on_subscribe is delivered (line %d) before %s' % (
                    h, ', '.join(ast.unparse(c.func) for c in escapes) or 'nothing else sees the subscriber')
                if not early else
                '%s(...) receives the subscriber before on_subscribe is delivered: a source that emits while it is '
                'being subscribed signals first, and on_subscribe arrives after the terminal signal' %
                ast.unparse(early[0].func))
    rep.require(rule, 'library publishers that deliver on_subscribe', n, 5)




def rule_synthetic_error_data_is_bytes(ctx):
    """C07.g  The synthetic ERROR frame of the close sequence resolves every pending requester - if it can be turned into
    an exception.  stop_all_streams(error_code, data) puts `data` into the frame as it is, and the requesters decode it
    (`frame.data.decode()`): a str there raises AttributeError inside the loop that fails the streams, the loop's
    containment swallows it, the stream is dropped from the table - and its awaitable is never resolved.  Every call
    of stop_all_streams (the socket's and StreamControl's) passes bytes for `data`: nothing (the bytes default), a bytes
    literal, an `.encode()` result, or its own `data` parameter whose default is bytes."""
    rep = ctx.report
    n = 0
    bad = []

    def bytes_like(m, f, e):
        if e is None:
            return True
        if isinstance(e, ast.Constant):
            return isinstance(e.value, (bytes, bytearray))
        if isinstance(e, ast.Call) and isinstance(e.func, ast.Attribute) and e.func.attr == 'encode':
            return True
        if isinstance(e, ast.Call) and isinstance(e.func, ast.Name) and e.func.id in ('bytes', 'ensure_bytes',
                                                                                       'str_to_bytes'):
            return True
        if isinstance(e, ast.Name):
            if e.id in f.params():
                # handed through: the default of that parameter must be bytes
                a = f.node.args
                names = [x.arg for x in a.args]
                d = a.defaults
                idx = names.index(e.id) - (len(names) - len(d)) if e.id in names else -1
                return idx >= 0 and isinstance(d[idx], ast.Constant) and isinstance(d[idx].value, bytes)
            vals = m.assigns.get(e.id)
            if vals:
                return bytes_like(m, f, vals[-1])
        return False

    for f in ctx.repo.all_functions():
        if not f.module.name.startswith('rsocket.') or f.module.name.startswith('rsocket.cli'):
            continue
        for x in walk_local(f.node):
            if isinstance(x, ast.Call) and isinstance(x.func, ast.Attribute) and x.func.attr == 'stop_all_streams':
                n += 1
                data = None
                for kw in x.keywords:
                    if kw.arg == 'data':
                        data = kw.value
                if data is None and len(x.args) > 1:
                    data = x.args[1]
                if not bytes_like(f.module, f, data):
                    bad.append((f, x, data))
    for f, x, data in bad:
        rep.bad('C07.g', '%s / stop_all_streams(data=%s)' % (f.qualname.split(':')[-1], ast.unparse(data)), f,
                'the data of the synthetic ERROR frame is not bytes: the requesters\' frame.data.decode() raises, the '
                'failure is swallowed by the close loop and the pending awaitables are never resolved')
    rep.require('C07.g', 'calls of stop_all_streams', n, 3)
    if not bad:
        rep.ok('C07.g', 'stop_all_streams / the synthetic error data is bytes at every call',
               ctx.repo.func('rsocket.stream_control:StreamControl.stop_all_streams'), '%d call sites' % n)



RULES = [('C07.a', rule_a), ('C07.b', rule_b), ('C07.c', rule_c), ('C07.d', rule_d), ('C11.h+C11.b+C09.e+C11.a+C01.h', rule_e), ('C07.e', rule_genpub), ('C12.l', rule_error_conversion), ('C07.f', rule_on_subscribe_first), ('C07.g', rule_synthetic_error_data_is_bytes)]
