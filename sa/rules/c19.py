"""C19 Routed dispatch is exact and the authentication gate cannot be bypassed."""
import ast

from .. import AnalysisError
from ..astutil import loop_carried_reads
from ..callgraph import callgraph
from ..effects import strip_epoch
from ..index import walk_local, ClassInfo
from ..interp import fmt_term, const, AVal
from . import COMMON_ASSUMPTIONS

EXPLANATION = (
    'Decides: (a) the gate - a registered route method is invoked at exactly one site (RequestRouter.route); route() '
    'is called from exactly one function, and on every path of that function - with exception edges enabled - the '
    'awaited authentication check precedes it and a raising check never reaches it; with a verifier configured, every '
    'normal exit of the check is dominated by an awaited verifier call on an authentication item of the request, the '
    'fall-through raises, and no entry point of the handler reaches a route other than through that function; (b) the '
    'five-row table interaction type -> decorator container -> lookup map entry -> unknown-route slot -> entry point '
    'frame type is consistent in every column; (c) lookup is exact key, then the unknown-route slot of the same type, '
    'then an error; require_route returns the first tag of the first routing item and raises when there is none; '
    'declared parameters receive the composite metadata exactly when named/annotated so, the payload otherwise. '
    'Not decided: nothing essential beyond what applications register.')
EXPLANATION_ADDED = ('Parameter binding is decided per path of the collector: metadata parameters get the metadata, parameters annotated Payload or not annotated get the raw payload, any other annotation gets payload_deserializer(annotation, payload). A failure of parsing, the gate, routing or the handler is converted by each entry point of the routing handler into the error value of its interaction and never propagates to the receive loop (shared C12.f).')
EXPLANATION = EXPLANATION.replace(' Not decided', ' ' + EXPLANATION_ADDED + ' Not decided', 1) \
    if ' Not decided' in EXPLANATION else EXPLANATION + ' ' + EXPLANATION_ADDED
ASSUMPTIONS = COMMON_ASSUMPTIONS

ROWS = {
    # interaction: (FrameType member, decorator, unknown decorator, entry point of RoutingRequestHandler)
    'response': ('REQUEST_RESPONSE', 'response', 'response_unknown', 'request_response'),
    'stream': ('REQUEST_STREAM', 'stream', 'stream_unknown', 'request_stream'),
    'channel': ('REQUEST_CHANNEL', 'channel', 'channel_unknown', 'request_channel'),
    'fire_and_forget': ('REQUEST_FNF', 'fire_and_forget', 'fire_and_forget_unknown', 'request_fire_and_forget'),
    'metadata_push': ('METADATA_PUSH', 'metadata_push', 'metadata_push_unknown', 'on_metadata_push'),
}

ROUTER = 'rsocket.routing.request_router:RequestRouter'
HANDLER = 'rsocket.routing.routing_request_handler:RoutingRequestHandler'


def rule_a(ctx):
    rep = ctx.report
    router = ctx.repo.cls(ROUTER)
    handler = ctx.repo.cls(HANDLER)
    # (i) route methods are invoked at one site
    sites = []
    for f in ctx.repo.all_functions():
        if not f.module.name.startswith('rsocket.routing'):
            continue
        for n in walk_local(f.node):
            if isinstance(n, ast.Call) and isinstance(n.func, ast.Attribute) and n.func.attr == 'method':
                sites.append((f, n))
    ok = len(sites) == 1 and sites[0][0].name == 'route' and sites[0][0].cls is router
    rep.add('C19.a', 'route methods / single invocation site', sites[0][0] if sites else router, ok,
            'registered methods are invoked only by RequestRouter.route' if ok else
            'registered route methods are invoked from %s' % [s[0].short for s in sites])
    # who calls route()
    route = router.lookup('route')
    callers = []
    for f in ctx.repo.all_functions():
        if not f.module.name.startswith('rsocket') or f.module.name.startswith('rsocket.cli'):
            continue
        for n in walk_local(f.node):
            if isinstance(n, ast.Call) and isinstance(n.func, ast.Attribute) and n.func.attr == 'route' and \
                    'router' in ast.unparse(n.func.value):
                callers.append((f, n))
    ok = len(callers) == 1 and callers[0][0].cls is handler
    rep.add('C19.a', 'RequestRouter.route / single caller', callers[0][0] if callers else handler, ok,
            'route() is called only from %s' % callers[0][0].short if ok else
            'route() is called from %s: an entry point can reach a route handler without the authentication check' %
            [c[0].short for c in callers])
    if not callers:
        raise AnalysisError('C19.a: nobody calls RequestRouter.route')
    gatefn = callers[0][0] if ok else handler.lookup('_parse_and_route')
    if gatefn is None:
        raise AnalysisError('C19.a: the routing function of RoutingRequestHandler vanished')
    # (ii) the check precedes route() on every path; a raising check never reaches route()
    paths = ctx.paths(gatefn, handler, exc=('app',), no_inline={'_verify_authentication', 'route',
                                                                '_parse_composite_metadata', 'require_route'})
    okp = True
    detail = ''
    reached = 0
    for p in paths:
        routes = [e for e in p.events if e.kind == 'call' and e.data.get('name') == 'route']
        verifs = [e for e in p.events if e.kind == 'call' and e.data.get('name') == '_verify_authentication']
        if not routes:
            continue
        reached += 1
        if not verifs or verifs[0].seq > routes[0].seq:
            okp, detail = False, 'a path reaches route() without the authentication check before it'
            continue
        if not verifs[0].data.get('awaited'):
            okp, detail = False, 'the authentication check is not awaited: its verdict is never seen'
            continue
        raised = [e for e in p.events if e.kind == 'raise' and e.data.get('call') == verifs[0].seq]
        if raised:
            okp, detail = False, 'route() is reached although the authentication check raised'
    if reached == 0:
        raise AnalysisError('C19.a: %s never reaches route()' % gatefn.short)
    rep.add('C19.a', '%s / authentication check dominates route()' % gatefn.short, gatefn, okp,
            detail or 'awaited check precedes route() on all %d routing paths; a raising check ends the request' %
            reached)
    # the check itself, with a verifier configured
    va = handler.lookup('_verify_authentication')
    if va is None:
        raise AnalysisError('C19.a: _verify_authentication vanished')
    verifier = AVal(('appcallable', 'authentication_verifier'), None)
    heap = {(('self',), 'authentication_verifier'): verifier}
    ps = ctx.paths(va, handler, exc=('app',), initial_heap=heap)
    okv = True
    detail = ''
    n_ok = 0
    for p in ps:
        if p.outcome != 'return':
            continue
        calls = [e for e in p.events if e.kind == 'call' and e.data.get('name') == 'authentication_verifier']
        if not calls:
            okv, detail = False, 'with a verifier configured, the check can return normally without calling it ' \
                                 '(a request without an authentication entry is let through)'
            continue
        if not calls[0].data.get('awaited'):
            okv, detail = False, 'the verifier coroutine is not awaited'
            continue
        # the verifier sees an authentication item of this request
        a = calls[0].data.get('args') or []
        if len(a) < 2 or 'authentication' not in repr(a[1].term):
            okv, detail = False, 'the verifier is not given the authentication entry of the request'
            continue
        isauth = [c for c in p.events if c.kind == 'cond' and c.data['key'][0] == 'isinstance' and
                  'AuthenticationContent' in repr(c.data['key'][2]) and c.data['value'] is True and
                  c.seq < calls[0].seq]
        if not isauth:
            okv, detail = False, 'the verified item is not known to be an authentication entry'
            continue
        n_ok += 1
    if n_ok == 0 and okv:
        okv, detail = False, 'no path verifies anything'
    rep.add('C19.a', 'RoutingRequestHandler._verify_authentication / verifier decides', va, okv,
            detail or 'every normal exit follows an awaited verifier call on an authentication entry; otherwise it '
                      'raises')
    # without a verifier nothing is required
    ps0 = ctx.paths(va, handler, initial_heap={(('self',), 'authentication_verifier'): const(None)})
    ok0 = all(p.outcome == 'return' for p in ps0) and bool(ps0)
    rep.add('C19.a', 'RoutingRequestHandler._verify_authentication / no verifier configured', va, ok0,
            'requests pass when no verifier is configured' if ok0 else 'the check fails although no verifier is set')
    # (iii) the five entry points reach routes only through the gate function
    for inter, (ft, dec, unk, entry) in ROWS.items():
        f = handler.lookup(entry)
        if f is None:
            raise AnalysisError('C19.a: entry point %s vanished' % entry)
        direct = [n for n in walk_local(f.node) if isinstance(n, ast.Call) and isinstance(n.func, ast.Attribute) and
                  n.func.attr in ('route', 'method')]
        via = [n for n in walk_local(f.node) if isinstance(n, ast.Call) and isinstance(n.func, ast.Attribute) and
               n.func.attr == gatefn.name]
        ok = not direct and len(via) == 1
        rep.add('C19.a', 'RoutingRequestHandler.%s / routes only through %s' % (entry, gatefn.name), f, ok,
                'the only way to a route handler is %s()' % gatefn.name if ok else
                '%s reaches the router without passing %s()' % (entry, gatefn.name))


def rule_b(ctx):
    rep = ctx.report
    router = ctx.repo.cls(ROUTER)
    handler = ctx.repo.cls(HANDLER)
    init = router.lookup('__init__')
    # lookup map: FrameType.X -> container attribute
    lookup = {}
    for n in walk_local(init.node):
        if isinstance(n, (ast.Assign, ast.AnnAssign)) and isinstance(n.value, ast.Dict) and \
                'frame_type' in ast.unparse(n.targets[0] if isinstance(n, ast.Assign) else n.target):
            for k, v in zip(n.value.keys, n.value.values):
                lookup[ast.unparse(k).split('.')[-1]] = ast.unparse(v).split('.')[-1]
    if len(lookup) < 5:
        raise AnalysisError('C19.b: route map by frame type not found')
    # unknown lookup: FrameType.X -> slot
    gu = router.lookup('_get_unknown_route')
    unk = {}
    for n in walk_local(gu.node):
        if isinstance(n, ast.If) and isinstance(n.test, ast.Compare) and len(n.test.ops) == 1 and \
                isinstance(n.test.ops[0], (ast.Eq, ast.Is)) and \
                gu.params()[1] in (ast.unparse(n.test.left), ast.unparse(n.test.comparators[0])):
            other = n.test.comparators[0] if ast.unparse(n.test.left) == gu.params()[1] else n.test.left
            ft = ast.unparse(other).split('.')[-1]
            from ..astutil import loop_carried_reads, resolve_temp
            for s in n.body:
                if isinstance(s, ast.Return) and s.value is not None and not isinstance(
                        resolve_temp(gu.node, s.value), ast.Name):
                    unk[ft] = ast.unparse(resolve_temp(gu.node, s.value)).split('.')[-1]
                if isinstance(s, ast.Assign) and len(n.body) == 2 and isinstance(n.body[1], ast.Return):
                    unk[ft] = ast.unparse(s.value).split('.')[-1]
    # ... or a table form: {FrameType.X: <record>.<slot>, ...}.get(frame_type) / [frame_type]
    for n in walk_local(gu.node):
        if isinstance(n, ast.Dict) and n.keys and all(k is not None and 'FrameType' in ast.unparse(k) for k in n.keys):
            used_by_type = any(
                (isinstance(c, ast.Call) and isinstance(c.func, ast.Attribute) and c.func.attr == 'get' and
                 c.func.value is n and c.args and ast.unparse(c.args[0]) == gu.params()[1]) or
                (isinstance(c, ast.Subscript) and c.value is n and ast.unparse(c.slice) == gu.params()[1])
                for c in walk_local(gu.node))
            named = None
            if not used_by_type:
                # table kept in a local and indexed afterwards
                for a in walk_local(gu.node):
                    if isinstance(a, ast.Assign) and a.value is n and isinstance(a.targets[0], ast.Name):
                        named = a.targets[0].id
                used_by_type = named is not None and any(
                    (isinstance(c, ast.Call) and isinstance(c.func, ast.Attribute) and c.func.attr == 'get' and
                     isinstance(c.func.value, ast.Name) and c.func.value.id == named and c.args and
                     ast.unparse(c.args[0]) == gu.params()[1]) or
                    (isinstance(c, ast.Subscript) and isinstance(c.value, ast.Name) and c.value.id == named and
                     ast.unparse(c.slice) == gu.params()[1]) for c in walk_local(gu.node))
            if used_by_type:
                for k, v in zip(n.keys, n.values):
                    unk.setdefault(ast.unparse(k).split('.')[-1], ast.unparse(v).split('.')[-1])
    for inter, (ft, dec, unkdec, entry) in ROWS.items():
        problems = []
        d = router.lookup(dec)
        container = None
        if d is not None:
            for n in walk_local(d.node):
                if isinstance(n, ast.Call) and isinstance(n.func, ast.Name) and n.func.id == 'decorator_factory':
                    container = ast.unparse(n.args[0]).split('.')[-1]
        if container is None:
            problems.append('decorator %s() does not register into a container' % dec)
        elif lookup.get(ft) != container:
            problems.append('@%s registers into %s but FrameType.%s is looked up in %s' % (
                dec, container, ft, lookup.get(ft)))
        ud = router.lookup(unkdec)
        slot = None
        wiped = None
        if ud is not None:
            for n in ast.walk(ud.node):
                if not (isinstance(n, ast.Assign) and isinstance(n.targets[0], ast.Attribute)):
                    continue
                tgt = ast.unparse(n.targets[0])
                if '_unknown.' in tgt:
                    # self._unknown.<slot> = RouteInfo(function)
                    slot = n.targets[0].attr
                elif tgt.endswith('_unknown') and isinstance(n.value, ast.Call) and n.value.keywords:
                    # the record replaced as a whole: dataclasses.replace(self._unknown, <slot>=...) keeps the other
                    # slots, a fresh Handlers(<slot>=...) resets them
                    callee = ast.unparse(n.value.func).split('.')[-1]
                    kws = [k.arg for k in n.value.keywords if k.arg]
                    if len(kws) == 1:
                        slot = kws[0]
                    keeps = callee == 'replace' and n.value.args and '_unknown' in ast.unparse(n.value.args[0])
                    if not keeps:
                        wiped = callee
        if wiped is not None:
            problems.append('@%s replaces the whole record of unknown-route handlers by a new %s(...): registering this '
                            'handler discards the unknown-route handlers of the other interaction types' % (
                                unkdec, wiped))
        if slot is None:
            problems.append('decorator %s() does not fill an unknown-route slot' % unkdec)
        elif unk.get(ft) != slot:
            problems.append('@%s fills slot %s but FrameType.%s falls back to slot %s' % (unkdec, slot, ft, unk.get(ft)))
        e = handler.lookup(entry)
        passed = None
        if e is not None:
            for n in walk_local(e.node):
                if isinstance(n, ast.Call) and isinstance(n.func, ast.Attribute) and n.func.attr == '_parse_and_route' \
                        and n.args:
                    passed = ast.unparse(n.args[0]).split('.')[-1]
        if passed != ft:
            problems.append('entry point %s routes as FrameType.%s, expected %s' % (entry, passed, ft))
        rep.add('C19.b', 'routing table row / %s' % inter, d or router, not problems,
                problems[0] if problems else '@%s -> %s <- FrameType.%s; @%s -> slot %s; entry %s passes %s' % (
                    dec, container, ft, unkdec, slot, entry, ft))
    # the decorator factory stores under the route it was given and rejects duplicates / empty routes
    m = router.module
    df = m.functions.get('decorator_factory')
    if not df:
        raise AnalysisError('C19.b: decorator_factory vanished')
    src = ast.unparse(df[-1].node)
    ok = 'container[route] = ' in src and 'route in container' in src
    rep.add('C19.b', 'decorator_factory / registers under the given route, rejects duplicates', df[-1], ok,
            'container[route] = RouteInfo(function), duplicate routes raise' if ok else
            'the decorator does not store under the given route or accepts duplicates')


def rule_c(ctx):
    rep = ctx.report
    router = ctx.repo.cls(ROUTER)
    route = router.lookup('route')
    ps = ctx.paths(route, router, no_inline={'_collect_route_arguments', '_payload_serializer'}, inline_depth=2)
    ok = True
    detail = ''
    n_exact = n_unknown = n_raise = 0
    for p in ps:
        inmap = [c for c in p.events if c.kind == 'cond' and strip_epoch(c.data['key'])[0] == 'in']
        if not inmap:
            ok, detail = False, 'a path does not test whether the route is registered'
            continue
        k = strip_epoch(inmap[0].data['key'])
        if k[1] != ('param', route.qualname, 'route') or 'frame_type' not in repr(k[2]):
            ok, detail = False, 'the membership test is not "route in map[frame_type]"'
        unknown_calls = [e for e in p.events if (e.kind == 'call' and e.data.get('name') == '_get_unknown_route') or
                         (e.kind == 'enter' and e.data['callee'].name == '_get_unknown_route')]
        if inmap[0].data['value']:
            n_exact += 1
            if unknown_calls:
                ok, detail = False, 'a registered route still consults the unknown-route slot'
        else:
            if not unknown_calls:
                ok, detail = False, 'an unregistered route does not fall back to the unknown-route slot'
            else:
                a = unknown_calls[0].data['args']
                if not a or strip_epoch(a[0].term) != ('param', route.qualname, 'frame_type'):
                    ok, detail = False, 'the unknown-route slot is chosen by something other than the frame type'
            none = [c for c in p.events if c.kind == 'cond' and c.data['key'][0] == 'isnone' and c.data['value']]
            if none:
                n_raise += 1
                if p.outcome != 'raise':
                    ok, detail = False, 'no route and no unknown-route handler, but the request does not fail'
            else:
                n_unknown += 1
    if not (n_exact and n_unknown and n_raise):
        ok, detail = False, 'lookup lacks one of exact / unknown / error outcomes (%d/%d/%d)' % (n_exact, n_unknown,
                                                                                               n_raise)
    rep.add('C19.c', 'RequestRouter.route / exact key, then unknown-route slot, then error', route, ok,
            detail or '%d exact, %d unknown, %d failing paths' % (n_exact, n_unknown, n_raise))
    # require_route
    hm = ctx.repo.module('rsocket.extensions.helpers')
    rr = hm.functions.get('require_route')
    if not rr:
        raise AnalysisError('C19.c: require_route vanished')
    f = rr[-1]
    ps = ctx.paths(f, None)
    ok = True
    detail = ''
    n_found = 0
    n_raise = 0
    for p in ps:
        if p.outcome == 'return':
            n_found += 1
            isrouting = [c for c in p.events if c.kind == 'cond' and c.data['key'][0] == 'isinstance' and
                         'RoutingMetadata' in repr(c.data['key'][2]) and c.data['value'] is True]
            t = strip_epoch(p.value.term)
            if not isrouting:
                ok, detail = False, 'a route is taken from an item that is not routing metadata'
            if "('const', 0)" not in repr(t) or 'tags' not in repr(t):
                ok, detail = False, 'the route is %s, not the first tag of the routing item' % fmt_term(t)[:80]
        elif p.outcome == 'raise':
            n_raise += 1
        # an entry that is not routing metadata (authentication, a MIME type) is passed over: the scan goes on to
        # the next entry - the route need not be the first entry of the composite metadata
        evs = [e for e in p.events if e.kind in ('loop', 'cond')]
        for i_, e in enumerate(evs):
            if e.kind == 'cond' and e.data['key'][0] == 'isinstance' and 'RoutingMetadata' in repr(e.data['key'][2]) \
                    and e.data['value'] is False:
                nxt = [x for x in evs[i_ + 1:] if x.kind == 'loop']
                if not nxt or nxt[0].data.get('phase') != 'back':
                    ok, detail = False, ('the scan stops at the first entry that is not routing metadata: a route '
                                         'behind an authentication or MIME-type entry is not found, and with a '
                                         'verifier configured the gate is never consulted for such a request')
    if not n_found or not n_raise:
        ok, detail = False, 'require_route lacks a %s path' % ('returning' if not n_found else 'raising')
    rep.add('C19.c', 'require_route / first tag of the first routing item, else error', f, ok,
            detail or 'returns tags[0] of the first RoutingMetadata item; raises when there is none')
    # argument collection, decided per iteration path: what is stored for the parameter vs the tests taken on it
    ca = router.lookup('_collect_route_arguments')
    if ca is None:
        raise AnalysisError('C19.c: _collect_route_arguments vanished')
    pars = ca.params()
    cm_t = ('param', ca.qualname, [q for q in pars if 'metadata' in q][0]) if [q for q in pars if 'metadata' in q] \
        else None
    pl_t = ('param', ca.qualname, 'payload') if 'payload' in pars else None
    ok = cm_t is not None and pl_t is not None
    why = 'the collector has no payload / composite-metadata parameter' if not ok else ''
    seen = set()
    for p in ctx.paths(ca, router, inline_depth=0) if ok else []:
        evs = p.events
        ent = [e for e in evs if e.kind == 'loop' and e.data.get('phase') == 'enter']
        if not ent:
            continue
        end = [e for e in evs if e.kind == 'loop' and e.data.get('phase') in ('back', 'cut', 'break') and
               e.seq > ent[0].seq]
        hi = end[0].seq if end else 10 ** 9
        body = [e for e in evs if ent[0].seq < e.seq < hi]
        name_eq = [c for c in body if c.kind == 'cond' and c.data['key'][0] == 'eq' and
                   ('const', 'composite_metadata') in [strip_epoch(x) for x in c.data['key'][1:3]]]
        ann_is = [c for c in body if c.kind == 'cond' and c.data['key'][0] == 'is' and
                  'CompositeMetadata' in repr(c.data['key'])]
        ann_in = [c for c in body if c.kind == 'cond' and c.data['key'][0] == 'in' and 'annotation' in repr(
            c.data['key'][1]) and 'Payload' in repr(c.data['key'][2])]
        st = [e for e in body if e.kind == 'store' and e.data['target'][0] == 'item']
        if len(st) != 1:
            ok, why = False, 'an iteration binds %d arguments for one parameter' % len(st)
            continue
        val = strip_epoch(st[0].data['value'].term)
        is_meta = (name_eq and name_eq[-1].data['value'] is True) or (ann_is and ann_is[-1].data['value'] is True)
        tested = bool(name_eq) and (name_eq[-1].data['value'] is True or bool(ann_is))
        if not tested:
            ok, why = False, 'a parameter is bound without testing its name and annotation for composite metadata'
            continue
        if is_meta:
            seen.add('meta')
            if val != cm_t:
                ok, why = False, 'a composite_metadata parameter receives %s' % fmt_term(val)[:60]
        else:
            if not ann_in:
                ok, why = False, 'a payload parameter is bound without looking at its annotation'
                continue
            raw = ann_in[-1].data['value'] is True
            if raw:
                seen.add('raw')
                if val != pl_t:
                    ok, why = False, ('a parameter annotated Payload (or not annotated) receives %s instead of the '
                                      'raw payload' % fmt_term(val)[:70])
            else:
                seen.add('typed')
                good = val[0] == 'call' and 'deserializer' in str(val[1]) and pl_t in [
                    strip_epoch(x) for x in val[2] if isinstance(x, tuple)]
                if not good:
                    ok, why = False, ('a parameter annotated with a data type receives %s instead of the '
                                      'deserialized payload' % fmt_term(val)[:70])
    if ok and seen != {'meta', 'raw', 'typed'}:
        ok, why = False, 'the collector has no path for %s parameters' % sorted({'meta', 'raw', 'typed'} - seen)
    # the paths above are those of one iteration entered from the function's start: what a later parameter receives is
    # the same only if nothing is carried from one iteration to the next
    loops = [n for n in walk_local(ca.node) if isinstance(n, (ast.For, ast.AsyncFor))]
    for lp in loops:
        for name, node in loop_carried_reads(lp):
            ok, why = False, ('line %d: `%s` is read in an iteration that has not assigned it - a parameter receives '
                              'what was computed for an earlier one' % (node.lineno, name))
    rep.add('C19.c', 'RequestRouter._collect_route_arguments / metadata vs payload parameters', ca, ok,
            'named composite_metadata or annotated CompositeMetadata -> the metadata; annotated Payload or not '
            'annotated -> the raw payload; any other annotation -> payload_deserializer(annotation, payload)'
            if ok else why)


def rule_d(ctx):
    """Route tables and unknown-route handlers belong to one router (a request is decided by that router alone)."""
    from . import plumbing
    plumbing.rule_shared_defaults(ctx, 'C19.d', ['rsocket.routing'], 'routing')


def rule_e(ctx):
    """A routed request that cannot be served fails on that request alone: whatever parsing, the authentication gate,
    routing or the handler raises is converted by the routing handler's entry point into the error value of its
    interaction (error future / error stream / nothing for the two one-way interactions) instead of reaching the
    receive loop, which would answer a one-way interaction with an ERROR frame (shared C12.f)."""
    from .c12 import rule_f as c12f
    c12f(ctx)


PARSERS = [('rsocket.extensions.composite_metadata', 'CompositeMetadata', 'metadata_item_factory',
            'metadata_item_factory_by_type'),
           ('rsocket.extensions.authentication_content', 'AuthenticationContent', 'authentication_item_factory',
            'metadata_item_factory_by_type')]


def _creates_instance(repo, m, f, e, depth=0):
    """Is `e` (an expression of function f) an object built by this evaluation: K(...), or <factory>(...)() where the
    factory hands out classes?  Returns (True, why) / (False, why)."""
    if not isinstance(e, ast.Call):
        return False, '%s is not a constructor call' % ast.unparse(e)
    fn = e.func
    if isinstance(fn, ast.Name):
        # `cls = factory(...)` ... `cls()`
        local = [a.value for a in walk_local(f.node) if isinstance(a, ast.Assign) and
                 any(isinstance(t, ast.Name) and t.id == fn.id for t in a.targets)]
        if len(local) == 1:
            fn = local[0]
    if isinstance(fn, ast.Call):
        # factory(...)(): the factory must return classes
        target = repo.resolve_expr(m, fn.func)
        if isinstance(target, list) and target:
            ok, why = _returns_classes(repo, target[-1])
            return ok, why
        return False, 'cannot resolve the factory %s' % ast.unparse(fn.func)
    target = repo.resolve_expr(m, fn)
    if isinstance(target, ClassInfo):
        return True, ''
    if isinstance(target, list) and target:
        # a function handing out the object: fresh only if every return of it builds one
        from ..astutil import returned_exprs
        g = target[-1]
        if depth < 2:
            rets = list(returned_exprs(g.node))
            res = [_creates_instance(repo, g.module, g, r, depth + 1) for r in rets]
            if rets and all(r[0] for r in res):
                return True, ''
            return False, '%s() hands out %s, an object that outlives the call' % (
                g.name, ', '.join(ast.unparse(r) for r, x in zip(rets, res) if not x[0]) or 'nothing')
    return False, '%s does not resolve to a class' % ast.unparse(fn)


def _returns_classes(repo, g):
    """Every value the registry function g can return is a class (not an instance shared by all callers)."""
    from ..astutil import returned_exprs
    m = g.module
    for r in returned_exprs(g.node):
        cands = []
        if isinstance(r, ast.Subscript):
            cands.append(('table', r.value))
        elif isinstance(r, ast.Call) and isinstance(r.func, ast.Attribute) and r.func.attr == 'get':
            cands.append(('table', r.func.value))
            for a in r.args[1:]:
                cands.append(('value', a))
        else:
            cands.append(('value', r))
        for kind, e in cands:
            if kind == 'table':
                if not isinstance(e, ast.Name) or not m.assigns.get(e.id) or not isinstance(m.assigns[e.id][-1],
                                                                                            ast.Dict):
                    return False, '%s() looks its result up in %s, which is not a literal table of this module' % (
                        g.name, ast.unparse(e))
                for v in m.assigns[e.id][-1].values:
                    if not isinstance(repo.resolve_expr(m, v), ClassInfo):
                        return False, ('the registry %s holds %s, an object and not a class: every entry parsed with it '
                                       'is the same object' % (e.id, ast.unparse(v)))
            else:
                if not isinstance(repo.resolve_expr(m, e), ClassInfo):
                    return False, '%s() can return %s, which is not a class' % (g.name, ast.unparse(e))
    return True, ''


def rule_f(ctx):
    """The verifier is handed the request's own authentication entry.  Every entry object a metadata parser fills in
    is built by that parse: the receiver of each `.parse(<bytes>)` inside CompositeMetadata.parse and
    AuthenticationContent.parse is assigned - in the same loop iteration - from K(...) or <registry function>(...)()
    where the registry holds classes.  An object that outlives the parse (a registry of instances, a module-level or
    memoised item) is overwritten by the next request of that type while a verifier that awaits still looks at it, and
    the second entry of one request overwrites the first."""
    rep = ctx.report
    repo = ctx.repo
    n = 0
    for modname, clsname, factory, table in PARSERS:
        m = repo.module(modname)
        k = repo.cls('%s:%s' % (modname, clsname))
        f = k.methods.get('parse') if k is not None else None
        if f is None:
            raise AnalysisError('C19.e: %s.%s.parse vanished' % (modname, clsname))
        sites = [c for c in walk_local(f.node) if isinstance(c, ast.Call) and isinstance(c.func, ast.Attribute) and
                 c.func.attr == 'parse' and not (isinstance(c.func.value, ast.Call))]
        if not sites:
            raise AnalysisError('C19.e: %s.parse fills in no entry' % clsname)
        for c in sites:
            n += 1
            recv = c.func.value
            text = ast.unparse(recv)
            stores = [a for a in walk_local(f.node) if isinstance(a, ast.Assign) and
                      any(ast.unparse(t) == text for t in a.targets)]
            ok, why = True, ''
            if len(stores) != 1:
                ok, why = False, '%s is not assigned exactly once in parse()' % text
            else:
                a = stores[0]
                ok, why = _creates_instance(repo, m, f, a.value)
                # same loop nesting: the object is built once per entry
                if ok:
                    def loops_of(node):
                        out = []
                        for l in walk_local(f.node):
                            if isinstance(l, (ast.While, ast.For)) and any(x is node for x in ast.walk(l)):
                                out.append(id(l))
                        return sorted(out)
                    if loops_of(a) != loops_of(c):
                        ok, why = False, ('%s is built outside the loop that fills it: every entry of the request is '
                                          'the same object' % text)
            rep.add('C19.e', '%s.parse / %s is an object of this parse' % (clsname, text), f, ok,
                    '%s = %s' % (text, ast.unparse(stores[0].value)) if ok else why)
    rep.require('C19.e', 'entry objects filled in by the metadata parsers', n, 2)



def rule_route_record(ctx):
    """C19.f  What the collector binds is what the handler declares: RouteInfo keeps the registered function itself and
    `inspect.signature(<that function>)`, unmodified - every declared parameter, keyword-only ones included, is then
    seen by _collect_route_arguments; a filtered or rebuilt signature silently stops passing some of them."""
    rep = ctx.report
    ri = ctx.repo.cls('rsocket.routing.request_router:RouteInfo')
    init = ri.methods.get('__init__') if ri is not None else None
    if init is None:
        raise AnalysisError('C19.f: RouteInfo.__init__ vanished')
    param = [p for p in init.params() if p != 'self'][0]
    stores = {}
    for n in walk_local(init.node):
        t = n.targets[0] if isinstance(n, ast.Assign) else n.target if isinstance(n, ast.AnnAssign) else None
        if t is not None and isinstance(t, ast.Attribute) and isinstance(t.value, ast.Name) and t.value.id == 'self' \
                and getattr(n, 'value', None) is not None:
            stores.setdefault(t.attr, []).append(n.value)
    from ..astutil import resolve_temp
    ok, detail = True, ''
    m = stores.get('method', [])
    if len(m) != 1 or not (isinstance(m[0], ast.Name) and m[0].id == param):
        ok, detail = False, 'RouteInfo.method is not the registered function'
    sg = stores.get('signature', [])
    if len(sg) != 1:
        ok, detail = False, 'RouteInfo.signature is stored %d times' % len(sg)
    else:
        v = resolve_temp(init.node, sg[0])
        good = isinstance(v, ast.Call) and isinstance(v.func, (ast.Name, ast.Attribute)) and \
            ast.unparse(v.func).split('.')[-1] == 'signature' and len(v.args) == 1 and \
            isinstance(v.args[0], ast.Name) and v.args[0].id == param and not v.keywords
        if not good:
            ok, detail = False, ('RouteInfo.signature is %s, not inspect.signature(%s) as it is: parameters the handler '
                                 'declares can be missing from what the collector binds' % (ast.unparse(sg[0])[:80], param))
    rep.add('C19.f', 'RouteInfo.__init__ / the function and its signature, unmodified', init, ok,
            detail or 'self.method = %s; self.signature = signature(%s)' % (param, param))
    # ... and the collector walks that signature's parameters, all of them
    router = ctx.repo.cls(ROUTER)
    col = router.lookup('_collect_route_arguments')
    loops = [n for n in walk_local(col.node) if isinstance(n, ast.For) and 'parameters' in ast.unparse(n.iter)]
    ok = len(loops) == 1 and 'signature' in ast.unparse(col.node) and not [
        x for x in walk_local(loops[0]) if isinstance(x, (ast.Break,))] if loops else False
    rep.add('C19.f', 'RequestRouter._collect_route_arguments / every declared parameter is visited', col, ok,
            'one loop over <signature>.parameters without break' if ok else
            'the collector does not iterate all parameters of the stored signature')



RULES = [('C19.a', rule_a), ('C19.b', rule_b), ('C19.c', rule_c), ('C19.d', rule_d), ('C12.f', rule_e), ('C19.e', rule_f), ('C19.f', rule_route_record)]
