"""The two loops every frame of a connection goes through, and how they are started.

  * `_start_task_if_not_closing` creates a task from the factory it is given exactly when the closing flag is false,
    and `_start_tasks` starts the receiver and the sender through it;
  * the receive loop (`_receiver_listen`) and the send loop (`_sender`) are entered on a live connection: the `while`
    that contains the call of `next_frame_generator()` / `transport.send_frame()` tests `is_server_alive()` positively
    (or is `while True`);
  * every frame the transport's generator yields is handed to `_handle_next_frame`: the `async for` over what
    `next_frame_generator()` returned calls it with the loop variable in every iteration, nothing precedes it in the
    loop body that could skip it (`continue` / `break` / `return`);
  * `metadata_push` builds one METADATA_PUSH frame from its argument, hands it to `send_frame` and returns that frame's
    sent-future.
Necessary conditions of C01 (a request reaches the wire, a received frame reaches its handler); they say nothing about
what the handlers do."""
import ast

from .. import AnalysisError
from ..astutil import returned_exprs
from ..index import walk_local


def _alive_test(test):
    """'pos' for `self.is_server_alive()` / True, 'neg' for its negation, None otherwise."""
    if isinstance(test, ast.Constant) and test.value is True:
        return 'pos'
    if isinstance(test, ast.Call) and isinstance(test.func, ast.Attribute) and test.func.attr == 'is_server_alive':
        return 'pos'
    if isinstance(test, ast.UnaryOp) and isinstance(test.op, ast.Not):
        inner = _alive_test(test.operand)
        return {'pos': 'neg', 'neg': 'pos'}.get(inner)
    if isinstance(test, ast.BoolOp) and isinstance(test.op, ast.And):
        kinds = [_alive_test(v) for v in test.values]
        if 'neg' in kinds:
            return 'neg'
        if 'pos' in kinds:
            return 'pos'
    return None


def _loop_around(f, pred):
    """The innermost `while` of f whose body contains a call satisfying pred."""
    best = None
    for n in walk_local(f.node):
        if isinstance(n, ast.While) and any(isinstance(c, ast.Call) and pred(c) for b in n.body for c in ast.walk(b)):
            if best is None or any(x is n for x in ast.walk(best)):
                best = n
    return best


def rule_pumps(ctx, rule):
    rep = ctx.report
    base = ctx.slots.RSocketBase
    # ---- task start
    st = base.lookup('_start_task_if_not_closing')
    if st is None:
        raise AnalysisError('%s: _start_task_if_not_closing vanished' % rule)
    factory = [p for p in st.params() if p != 'self'][0]
    ok, detail = True, ''
    ps = ctx.paths(st, base, inline_depth=0)
    n_created = 0
    for p in ps:
        closing = None
        for e in p.events:
            if e.kind == 'cond' and '_is_closing' in repr(e.data['key']):
                k = e.data['key']
                v = bool(e.data['value'])
                closing = (not v) if k[0] == 'not' else v
        created = [e for e in p.events if e.kind == 'call' and str(e.data.get('name', '')).endswith(
            ('create_task', 'ensure_future'))]
        if closing is None:
            ok, detail = False, 'a path does not look at the closing flag'
        elif closing and created:
            ok, detail = False, 'a task is started although the connection is closing'
        elif not closing:
            n_created += 1
            called = [e for e in p.events if e.kind == 'call' and e.data.get('name') == factory]
            if len(created) != 1 or len(called) != 1:
                ok, detail = False, 'with the closing flag false no task is created from the factory given'
            elif p.outcome != 'return' or p.value is None or p.value.is_const():
                ok, detail = False, 'the task that was created is not handed back'
    rep.add(rule, 'RSocketBase._start_task_if_not_closing / a task from the factory exactly when not closing', st,
            ok and n_created > 0, detail or 'create_task(factory()) iff not self._is_closing, returned')
    stt = base.lookup('_start_tasks')
    started = set()
    if stt is not None:
        for n in walk_local(stt.node):
            if isinstance(n, ast.Call) and isinstance(n.func, ast.Attribute) and \
                    n.func.attr == '_start_task_if_not_closing' and n.args and isinstance(n.args[0], ast.Attribute):
                started.add(n.args[0].attr)
    ok = {'_receiver', '_sender'} <= started
    rep.add(rule, 'RSocketBase._start_tasks / receiver and sender started', stt or base, ok,
            'both loops are started through _start_task_if_not_closing' if ok else
            'started: %s - a connection without its %s' % (sorted(started), sorted({'_receiver', '_sender'} - started)))
    # ---- loops entered on a live connection
    for fname, callee, what in (('_receiver_listen', 'next_frame_generator', 'receive'),
                                ('_sender', 'send_frame', 'send')):
        f = base.lookup(fname)
        if f is None:
            raise AnalysisError('%s: %s vanished' % (rule, fname))
        loop = _loop_around(f, lambda c: isinstance(c.func, ast.Attribute) and c.func.attr == callee and not (
            isinstance(c.func.value, ast.Name) and c.func.value.id == 'self'))
        if loop is None:
            raise AnalysisError('%s: %s has no loop around %s()' % (rule, fname, callee))
        kind = _alive_test(loop.test)
        if kind is None:
            raise AnalysisError('%s: the %s loop tests %s' % (rule, what, ast.unparse(loop.test)))
        rep.add(rule, 'RSocketBase.%s / the %s loop runs while the connection is alive' % (fname, what), f,
                kind == 'pos', 'while %s' % ast.unparse(loop.test) if kind == 'pos' else
                'the loop is entered only when is_server_alive() is false: nothing is %s on a live connection' % (
                    'received' if what == 'receive' else 'sent'))
    # ---- every yielded frame handled
    f = base.lookup('_receiver_listen')
    fors = [n for n in walk_local(f.node) if isinstance(n, ast.AsyncFor)]
    ok, detail = len(fors) == 1, '' if len(fors) == 1 else '%d async for loops' % len(fors)
    if ok:
        loop = fors[0]
        var = loop.target.id if isinstance(loop.target, ast.Name) else None
        src = loop.iter
        if isinstance(src, ast.Name):
            assigned = [n.value for n in walk_local(f.node) if isinstance(n, ast.Assign) and
                        any(isinstance(t, ast.Name) and t.id == src.id for t in n.targets)]
            src = assigned[0] if len(assigned) == 1 else src
        if isinstance(src, ast.Await):
            src = src.value
        if not (isinstance(src, ast.Call) and isinstance(src.func, ast.Attribute) and
                src.func.attr == 'next_frame_generator'):
            ok, detail = False, 'the loop does not iterate what next_frame_generator() returned'
        # first statement that is not logging: try: await self._handle_next_frame(frame, ...)
        body = [s for s in loop.body if not (isinstance(s, ast.Expr) and 'logger' in ast.unparse(s))]
        first = body[0] if body else None
        stmts = first.body if isinstance(first, ast.Try) else [first] if first is not None else []
        call = None
        if stmts and isinstance(stmts[0], ast.Expr) and isinstance(stmts[0].value, ast.Await) and \
                isinstance(stmts[0].value.value, ast.Call):
            call = stmts[0].value.value
        if ok and not (call is not None and isinstance(call.func, ast.Attribute) and
                       call.func.attr == '_handle_next_frame' and call.args and
                       isinstance(call.args[0], ast.Name) and call.args[0].id == var):
            ok, detail = False, 'the first thing done with a received frame is not `await self._handle_next_frame(<it>, ...)`'
    rep.add(rule, 'RSocketBase._receiver_listen / every frame the transport yields is handled', f, ok,
            detail or 'async for frame in <next_frame_generator()>: await self._handle_next_frame(frame, ...) first')
    # ---- metadata_push
    mp = base.lookup('metadata_push')
    if mp is None:
        raise AnalysisError('%s: metadata_push vanished' % rule)
    arg = [p for p in mp.params() if p != 'self'][0]
    ps = [p for p in ctx.paths(mp, base, inline_depth=0) if p.outcome == 'return']
    ok, detail = bool(ps), ''
    from ..effects import strip_epoch
    for p in ps:
        built = [e for e in p.events if e.kind == 'call' and e.data.get('name') == 'to_metadata_push_frame']
        sent = [e for e in p.events if e.kind == 'call' and e.data.get('name') in ('send_frame', 'send_request')]
        if len(built) != 1 or [strip_epoch(a.term) for a in built[0].data['args']] != [('param', mp.qualname, arg)]:
            ok, detail = False, 'the frame is not built from the caller\'s metadata'
            continue
        frame = strip_epoch(built[0].data['value'].term)
        if len(sent) != 1 or [strip_epoch(a.term) for a in sent[0].data['args']] != [frame]:
            ok, detail = False, 'the METADATA_PUSH frame is not handed to send_frame exactly once'
            continue
        t = strip_epoch(p.value.term)
        if t != ('attr', frame, 'sent_future'):
            ok, detail = False, 'what the caller gets is not that frame\'s sent-future'
    rep.add(rule, 'RSocketBase.metadata_push / one frame from the argument, queued, its sent-future returned', mp, ok,
            detail or 'to_metadata_push_frame(metadata) -> send_frame -> frame.sent_future')
