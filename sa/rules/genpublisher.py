"""Typestate of the library's generator-backed publishers (StreamFromGenerator and subclasses) by re-entry:

  created --subscribe--> subscribed --request(n)--> producing --[the delivering task ends after the completing element]--> completed

and in `completed` a further request(n) (a REQUEST_N racing with the COMPLETE that is still in flight on a half-open
channel) must not start a task that signals the subscriber again.  The state is the publisher's task attributes: the
heap after subscribe() and the first request() is computed from their paths, the effects of the delivering task's
normal end (its stores on the paths that leave the loop after a completing element, `finally` included) are applied,
and request() is interpreted again from that heap.

A necessary condition of C07 (nothing after the terminal signal) and C08 (no payload after the own COMPLETE) for streams
produced by the library's own sources; what the generator yields is not looked at."""
import ast

from .. import AnalysisError
from ..effects import strip_epoch
from ..index import walk_local
from ..interp import const, AVal, fmt_term

BASE = 'rsocket.streams.stream_from_generator:StreamFromGenerator'


def _signalling_task(k):
    """name of the coroutine method from which the subscriber is signalled in a loop (the delivering task)"""
    out = []
    names = {name for c in k.mro() for name in c.methods}
    for name in sorted(names):
        m = k.lookup(name)
        if m is None or not m.is_async:
            continue
        src = ast.unparse(m.node)
        if any(isinstance(n, ast.While) for n in walk_local(m.node)) and ('_send_to_subscriber' in src or
                                                                         'on_next(' in src):
            out.append(m)
    return out


def _spawns(p, coro_name):
    return [e for e in p.events if e.kind == 'call' and str(e.data.get('name', '')).endswith('create_task') and
            coro_name in repr([strip_epoch(a.term) for a in e.data.get('args', [])])]


def rule_completed_publisher_stays_completed(ctx, rule):
    rep = ctx.report
    repo = ctx.repo
    base = repo.cls(BASE)
    n = 0
    for k in sorted(repo.concrete_subclasses(base), key=lambda c: c.name):
        sig = _signalling_task(k)
        if len(sig) != 1:
            raise AnalysisError('%s: %s has %d delivering tasks, one expected' % (rule, k.name, len(sig)))
        deliver = sig[0]
        sub = k.lookup('subscribe')
        req = k.lookup('request')
        if sub is None or req is None:
            raise AnalysisError('%s: %s lost subscribe/request' % (rule, k.name))
        n += 1
        # a task object: definitely not None (modelled as a freshly constructed object)
        task_val = AVal(('new', 0, 'Task'), [k], exact=True)
        # heap after subscribe + first request: every attribute assigned a create_task(...) value holds a task
        heap = {}
        for f in (k.lookup('__init__'), sub, req):
            if f is None:
                continue
            for p in ctx.paths(f, k, inline_depth=2):
                for e in p.events:
                    if e.kind == 'store' and e.data['target'][0] == 'attr' and \
                            strip_epoch(e.data['target'][1]) == ('self',):
                        t = strip_epoch(e.data['value'].term)
                        if 'create_task' in repr(t):
                            heap[(('self',), e.data['target'][2])] = task_val
        if not heap:
            raise AnalysisError('%s: %s starts no task in subscribe/request' % (rule, k.name))
        spawned_before = set(a for (_, a) in heap)
        # effects of the delivering task's normal end
        ends = [p for p in ctx.paths(deliver, k, inline_depth=2, no_inline={'_send_to_subscriber'},
                                     initial_heap=dict(heap)) if p.outcome == 'return']
        if not ends:
            raise AnalysisError('%s: %s.%s has no normal end' % (rule, k.name, deliver.node.name))
        bad = None
        n_states = 0
        seen_states = set()
        for pe in ends:
            h2 = dict(heap)
            for e in pe.events:
                if e.kind == 'store' and e.data['target'][0] == 'attr' and \
                        strip_epoch(e.data['target'][1]) == ('self',):
                    h2[(('self',), e.data['target'][2])] = e.data['value']
            key = tuple(sorted((a, repr(strip_epoch(v.term))) for (_, a), v in h2.items()))
            if key in seen_states:
                continue
            seen_states.add(key)
            n_states += 1
            for pr in ctx.paths(req, k, inline_depth=2, initial_heap=h2):
                sp = _spawns(pr, deliver.node.name)
                if sp:
                    reset = [a for (_, a), v in h2.items() if a in spawned_before and
                             strip_epoch(v.term) == ('const', None)]
                    bad = ('after the delivering task %s ended with the completing element (leaving %s), request(n) '
                           'starts it again (line %s): the subscriber is signalled after its terminal signal' % (
                               deliver.node.name, ', '.join('self.%s = None' % a for a in sorted(reset)) or 'its state',
                               sp[0].line))
        rep.add(rule, '%s / a completed publisher does not start delivering again' % k.name, req, bad is None,
                bad or 'request(n) in each of the %d states the delivering task can end in creates no new %s task' % (
                    n_states, deliver.node.name))
    rep.require(rule, 'generator-backed publishers', n, 2)


def rule_failure_stops_delivery_first(ctx, rule):
    """When the application's generator fails, the producing task tells the subscriber (on_error) - and from then on
    nothing may be delivered: the delivering task must be cancelled before the producing task suspends again.  An await
    between on_error and the cancellation (waiting for the queue to drain, say) lets the delivering task hand the queued
    elements to a subscriber that has already been given its terminal signal."""
    from ..effects import signal_kind
    rep = ctx.report
    repo = ctx.repo
    base = repo.cls(BASE)
    n = 0
    for k in sorted(repo.concrete_subclasses(base), key=lambda c: c.name):
        q = k.lookup('queue_next_n')
        if q is None:
            raise AnalysisError('%s: %s.queue_next_n vanished' % (rule, k.name))
        ps = ctx.paths(q, k, exc=('app',), inline_depth=2, no_inline={'_start_generator', '_generate_next_n'})
        n_err = 0
        bad = None
        for p in ps:
            errs = [e for e in p.events if signal_kind(e) == 'error']
            if not errs:
                continue
            n_err += 1
            after = [e for e in p.events if e.seq > errs[0].seq]
            if p.outcome == 'raise' and not [e for e in after if e.kind == 'call']:
                continue  # on_error itself raised: nothing of this rule's concern follows
            cancels = [e for e in after if e.kind == 'call' and 'cancel' in str(e.data.get('name')) and (
                'feeder' in str(e.data.get('name')) or (
                    e.data.get('recv') is not None and 'feeder' in repr(strip_epoch(e.data['recv'].term))))]
            first_cancel = cancels[0].seq if cancels else None
            susp = [e for e in after if (e.kind == 'await' or (e.kind == 'call' and e.data.get('awaited'))) and
                    (first_cancel is None or e.seq < first_cancel)]
            if susp:
                bad = ('after on_error the producing task awaits (line %s) before the delivering task is cancelled: '
                       'elements still queued are delivered after the terminal signal' % susp[0].line)
            elif first_cancel is None:
                bad = 'after on_error the delivering task is never cancelled'
        if n_err == 0:
            raise AnalysisError('%s: %s.queue_next_n never signals an error' % (rule, k.name))
        n += 1
        rep.add(rule, '%s.queue_next_n / nothing is delivered after the failure is signalled' % k.name, q, bad is None,
                bad or 'on every path that signals on_error the feeders are cancelled before the task suspends again '
                       '(%d paths)' % n_err)
    rep.require(rule, 'generator-backed publishers', n, 2)
