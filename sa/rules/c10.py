"""C10 No per-stream state survives a terminated interaction."""
import ast

from .. import AnalysisError
from ..effects import is_finish, is_gone, gone_key, is_cache_remove, is_enq_send, is_enq_lease
from ..index import walk_local
from ..interp import AVal, const
from ..effects import strip_epoch
from . import COMMON_ASSUMPTIONS
from .handlers import model, H_TERM
from .c07 import init_bools, _st

EXPLANATION = (
    'Decides "finish on every terminal event" as a must-effect over enumerated paths: for every handler class, '
    'every received frame class x flag combination that the protocol table marks terminal, and every entry point '
    '(method, future callback, helper-subscriber method) on whose path a terminal frame is enqueued, the removal of '
    'the stream-table entry (pop on the table attribute discovered from register_stream) happens on every normal '
    'path; for channels the two half-closes are composed in both orders through their constant post-states and the '
    'second one must remove the entry. Also: finish_stream clears the stream table and the reassembly cache under '
    'the same id; the fire-and-forget id is released by the sent-future callback; an invalid initial_request_n '
    'releases the id before raising. Not decided: emptiness of both tables at quiescence as a run-time observation.')
EXPLANATION_ADDED = ('Closing one direction of a channel from the open state does not release the stream (unless the same event closes both). A channel endpoint given no application subscriber counts its inbound direction as complete on every path of subscribe(None).')
EXPLANATION = EXPLANATION.replace(' Not decided', ' ' + EXPLANATION_ADDED + ' Not decided', 1) \
    if ' Not decided' in EXPLANATION else EXPLANATION + ' ' + EXPLANATION_ADDED
ASSUMPTIONS = COMMON_ASSUMPTIONS


def rule_a(ctx, rule='C10.a'):
    rep = ctx.report
    m = model(ctx)
    n_recv = n_emit = n_pairs = n_half = 0
    for h in m.handlers:
        inter, role = m.role(h)
        pre0 = init_bools(ctx, m, h)
        entries = m.entries(h)
        closers = []  # (entry, direction, path filter)
        for en in entries:
            if not en.is_event:
                continue
            paths = m.run(en, pre0)
            ret = [p for p in paths if p.outcome == 'return']
            rc = m.recv_class(h, en)
            if rc == 'whole':
                n_recv += 1
                missing = [p for p in ret if not m.finished(p)]
                c = '%s / received whole-stream terminal' % en.name
                if not ret:
                    raise AnalysisError('%s: no normal path through %s' % (rule, en.name))
                if missing:
                    rep.bad(rule, c, en.func,
                            '%d of %d normal paths leave the stream registered (from state %s) although %s terminates '
                            'the whole stream for a %s %s' % (len(missing), len(ret), _st(pre0), en.frame_cls.name,
                                                              inter, role))
                else:
                    rep.ok(rule, c, en.func, 'stream-table entry removed on all %d normal paths' % len(ret))
            elif rc in ('recv', 'send'):
                closers.append((en, rc, None))
            # emitted terminals
            by_class = {}
            for p in ret:
                for cname, complete, ev in m.emitted(p):
                    ec = m.emit_class(h, cname, complete)
                    if ec:
                        by_class.setdefault((cname, ec), []).append(p)
            for (cname, ec), ps in sorted(by_class.items()):
                if ec == 'whole':
                    n_emit += 1
                    missing = [p for p in ps if not m.finished(p)]
                    c = '%s / emits %s (whole-stream terminal)' % (en.name, cname)
                    if missing:
                        rep.bad(rule, c, en.func,
                                '%d of %d paths that enqueue %s leave the stream registered (from state %s)' % (
                                    len(missing), len(ps), cname, _st(pre0)))
                    else:
                        rep.ok(rule, c, en.func, 'entry removed on all %d paths that enqueue %s' % (len(ps), cname))
                elif en.kind != 'frame' or rc is None:
                    closers.append((en, ec, cname))
        # channels: the two directions close in either order
        if inter == 'channel':
            # ... and closing one direction while the other is open must not release the stream: the frames still to
            # come in the open direction would be dropped as "unknown stream"
            for a, da, fa in closers:
                pa = [p for p in m.run(a, pre0) if p.outcome == 'return' and (fa is None or _emits(m, h, p, fa))]
                if not pa:
                    continue
                # (one event may close both directions - a request frame carrying COMPLETE answered by a responder
                # without publisher; then every closing flag of the handler is set when the stream is released)
                def other_side_closed_too(p):
                    # ... which takes an event of the other direction on the same path: a terminal frame of ours queued
                    # (when a received frame closes the receiving side), a terminal frame received (when a signal of
                    # our publisher closes the sending side) - flags alone do not close a direction
                    if da == 'recv':
                        return any(m.emit_class(h, c, cm) for c, cm, _ in m.emitted(p))
                    if m.recv_class(h, a) in ('recv', 'whole'):
                        return True
                    # subscribe(None): nobody listens, the inbound direction counts as complete from the start
                    return a.kind == 'method' and any(
                        c.kind == 'cond' and c.data['key'][0] == 'isnone' and c.data['value'] is True and
                        'subscriber' in repr(c.data['key'][1]) for c in p.events)
                early = [p for p in pa if m.finished(p) and
                         not (all({**pre0, **m.post_state(p)}.get(k) is True for k in pre0) and
                              other_side_closed_too(p))]
                n_half += 1
                rep.add(rule, '%s%s / half-close keeps the stream while the other direction is open' % (
                    a.name, ' emitting %s' % fa if fa else ''), a.func, not early,
                        'the entry stays registered on all %d paths from the open state' % len(pa) if not early else
                        'closing the %s direction alone (state %s) removes the stream on %d of %d paths: frames of the '
                        'other direction are then dropped' % ('receiving' if da == 'recv' else 'sending', _st(pre0),
                                                              len(early), len(pa)))
            seen_pairs = set()
            for a, da, fa in closers:
                for b, db, fb in closers:
                    if da == db:
                        continue
                    key = (a.name, b.name)
                    if key in seen_pairs:
                        continue
                    seen_pairs.add(key)
                    res = _compose(m, h, pre0, a, fa, b, fb)
                    if res is None:
                        continue
                    n_pairs += 1
                    ok, detail = res
                    rep.add(rule, '%s then %s' % (a.name, b.name), b.func, ok, detail)
    rep.require(rule, 'received whole-stream terminals', n_recv, 7)
    rep.require(rule, 'emitted whole-stream terminals', n_emit, 6)
    rep.require(rule, 'channel half-close orderings', n_pairs, 8)
    rep.require(rule, 'channel half-closes from the open state', n_half, 6)
    # invalid initial_request_n: the id registered by register_new_stream is released before raising
    f = ctx.repo.func('rsocket.streams.stream_handler:StreamHandler.initial_request_n')
    h0 = [h for h in m.handlers if m.role(h) == ('stream', 'requester')]
    if not h0:
        raise AnalysisError('%s: no stream requester class' % rule)
    ps = ctx.paths(f, h0[0], self_val=m.hval(h0[0]))
    raising = [p for p in ps if p.outcome == 'raise']
    if not raising:
        raise AnalysisError('%s: initial_request_n has no rejecting path' % rule)
    ok = all(m.finished(p) for p in raising)
    rep.add(rule, 'StreamHandler.initial_request_n / rejected value', f, ok,
            'the stream id is released on every rejecting path' if ok else
            'a rejecting path leaves the stream registered')
    # the same for the other methods an application calls on a requester that is already registered: an explicit
    # rejection on the way (an argument check in a frame builder, say) must release the id before it propagates
    n_sub = 0
    for h in m.handlers:
        if m.role(h)[1] != 'requester':
            continue
        for en in m.entries(h):
            if en.kind != 'method' or en.func.node.name not in ('subscribe', 'request', 'cancel'):
                continue
            n_sub += 1
            leaks = []
            for p in m.run(en, init_bools(ctx, m, h)):
                if p.outcome != 'raise':
                    continue
                explicit = [e for e in p.events if e.kind == 'raise' and not e.data.get('implicit')]
                if not explicit:
                    continue
                if not m.finished(p):
                    leaks.append(explicit[-1])
            rep.add(rule, '%s.%s / a rejection releases the stream id' % (h.name, en.func.node.name), en.func,
                    not leaks,
                    'no explicit raise is reachable with the stream still registered' if not leaks else
                    'the raise at line %s propagates out of %s() with the requester still in the stream table: the '
                    'id is never released' % (leaks[0].line, en.func.node.name))
    rep.require(rule, 'requester methods called by the application', n_sub, 4)



def rule_release_needs_terminal(ctx, rule='C13.j'):
    """C13.j  A live stream's id is given up only together with a terminal frame.  request(n) and cancel() are called
    on a stream whose request frame may already be on the wire: a path through them - returning or raising - that
    takes the handler out of the stream table without having queued a frame that ends the stream for the peer too
    (CANCEL, ERROR, a completing PAYLOAD) leaves the peer serving an id that the allocator will hand out again after
    wrap-around, and that an incoming request may now re-use without being rejected."""
    rep = ctx.report
    m = model(ctx)
    n = 0
    for h in m.handlers:
        for en in m.entries(h):
            if en.kind != 'method' or en.func.node.name not in ('request', 'cancel'):
                continue
            n += 1
            bad = None
            for p in m.run(en, init_bools(ctx, m, h)):
                if p.outcome not in ('return', 'raise') or not m.finished(p):
                    continue
                if not any(m.emit_class(h, c, cm) for c, cm, _ in m.emitted(p)):
                    bad = p
                    break
            where = ''
            if bad is not None:
                ev = [e for e in bad.events if e.kind == 'raise' and not e.data.get('implicit')]
                where = 'the path that raises at line %s' % ev[-1].line if ev else 'a path'
            rep.add(rule, '%s.%s / the id is released only with a terminal frame' % (h.name, en.func.node.name),
                    en.func, bad is None,
                    'no path releases the id without queueing a terminal frame' if bad is None else
                    '%s takes the stream out of the table and sends nothing: the peer keeps serving an id that will be '
                    'handed out again' % where)
    rep.require(rule, 'request()/cancel() of registered handlers', n, 6)




def rule_refused_request_is_released(ctx, rule='C10.e'):
    """C10.e  A request the lease hold queue refuses leaves nothing behind.  The hold queue is bounded by the
    application's configuration (request_queue_size); put_nowait() on it raises QueueFull for the request that does not
    fit, and that exception goes to the caller of request_response() / subscribe().  By then the requester is in the
    stream table (request_response, request_stream and request_channel register before they send): unless the overflow
    path gives the id back, the entry stays for the life of the connection and the id is never handed out again.
    Every put_nowait() on a socket queue whose bound is not a constant sits in a `try` whose QueueFull handler calls
    finish_stream(<the frame>.stream_id) and re-raises."""
    rep = ctx.report
    repo = ctx.repo
    base = ctx.slots.RSocketBase
    bounded = {}
    for k in [base] + repo.subclasses(base):
        for f in k.methods.values():
            for st in walk_local(f.node):
                if isinstance(st, ast.Assign) and isinstance(st.value, ast.Call) and \
                        ast.unparse(st.value.func).split('.')[-1] == 'Queue':
                    size = st.value.args[0] if st.value.args else next(
                        (kw.value for kw in st.value.keywords if kw.arg == 'maxsize'), None)
                    if size is None or repo.try_const(f.module, size) is not None:
                        continue
                    for t in st.targets:
                        if isinstance(t, ast.Attribute) and isinstance(t.value, ast.Name) and t.value.id == 'self':
                            bounded[t.attr] = (f, st)
    if not bounded:
        raise AnalysisError('%s: no socket queue bounded by configuration (the lease hold queue vanished)' % rule)
    n = 0
    for k in [base] + repo.subclasses(base):
        for f in k.methods.values():
            parents = {}
            for x in ast.walk(f.node):
                for c in ast.iter_child_nodes(x):
                    parents[c] = x
            for c in walk_local(f.node):
                if not (isinstance(c, ast.Call) and isinstance(c.func, ast.Attribute) and c.func.attr == 'put_nowait' and
                        isinstance(c.func.value, ast.Attribute) and c.func.value.attr in bounded and c.args):
                    continue
                n += 1
                arg = ast.unparse(c.args[0])
                ok, why = False, 'the overflow (QueueFull) is not handled here: the refused request stays registered'
                x = c
                while x in parents:
                    p = parents[x]
                    if isinstance(p, ast.Try) and x in p.body:
                        for h in p.handlers:
                            names = ast.unparse(h.type) if h.type is not None else 'BaseException'
                            if not any(w in names for w in ('QueueFull', 'Exception', 'BaseException')):
                                continue
                            rel = [y for y in ast.walk(ast.Module(body=h.body, type_ignores=[]))
                                   if isinstance(y, ast.Call) and isinstance(y.func, ast.Attribute) and
                                   y.func.attr in ('finish_stream', '_finish_stream') and y.args and
                                   ast.unparse(y.args[0]) == arg + '.stream_id']
                            reraises = any(isinstance(y, ast.Raise) for y in h.body)
                            if rel and reraises:
                                ok, why = True, ''
                            elif rel:
                                why = 'the overflow handler releases the id but swallows the refusal'
                            else:
                                why = 'the overflow handler does not release %s.stream_id' % arg
                    x = p
                rep.add(rule, '%s / a request the hold queue refuses is released' % f.short, (f.file, c.lineno), ok,
                        why or 'QueueFull -> finish_stream(%s.stream_id), re-raised' % arg)
    rep.require(rule, 'put_nowait sites on the hold queue', n, 1)




def rule_cancel_always_cancels(ctx):
    """(shared C09.a)  cancel() of a pending interaction sends its CANCEL and closes the cancelled direction on every
    path: a cancel that returns early on some state of the handler leaves the stream registered at both ends for the
    life of the connection (rules/c09.py)."""
    from .c09 import rule_a as c09a
    c09a(ctx)




def rule_default_subscriber_cannot_fail(ctx):
    """(shared C01.o)  The completing element is handed to the subscriber before the stream is released; the library's
    own DefaultSubscriber must not raise there by itself (a no-op default call-back of the wrong arity): the release
    would be skipped, and since the handler already knows the stream has ended a later cancel() cannot repair it
    (rules/c01.py)."""
    from .c01 import rule_default_subscriber
    rule_default_subscriber(ctx)



def _emits(m, h, p, cname):
    return any(c == cname and m.emit_class(h, c, cm) for c, cm, _ in m.emitted(p))


def _compose(m, h, pre0, a, fa, b, fb):
    pa = [p for p in m.run(a, pre0) if p.outcome == 'return' and (fa is None or _emits(m, h, p, fa))]
    pa = [p for p in pa if not m.finished(p)]
    if not pa:
        return None
    fails = []
    total = 0
    for p in pa:
        post = dict(pre0)
        post.update(m.post_state(p))
        pb = [q for q in m.run(b, post) if q.outcome == 'return' and (fb is None or _emits(m, h, q, fb))]
        for q in pb:
            total += 1
            if not m.finished(q):
                fails.append(post)
    if total == 0:
        return None
    if fails:
        return False, 'after the first half-close (state %s) the second one leaves the stream registered on %d of ' \
                      '%d paths' % (_st(fails[0]), len(fails), total)
    return True, 'second half-close removes the entry on all %d paths' % total


def rule_b(ctx):
    rep = ctx.report
    f = ctx.repo.func('rsocket.rsocket_base:RSocketBase.finish_stream')
    for cls in (ctx.slots.RSocketClient, ctx.slots.RSocketServer):
        ps = [p for p in ctx.paths(f, cls) if p.outcome == 'return']
        if not ps:
            raise AnalysisError('C10.b: finish_stream has no normal path')
        ok = True
        detail = 'stream table and reassembly cache are both cleared under the id passed in'
        for p in ps:
            fin = [(gone_key(e, ctx.slots), e) for e in p.events if is_gone(e, ctx.slots)]
            rem = [(e.data['args'][0].term if e.data.get('args') else None, e) for e in p.events
                   if is_cache_remove(e, ctx.slots)]
            if not fin:
                ok, detail = False, 'a path does not remove the stream-table entry'
            elif not rem:
                ok, detail = False, 'a path does not remove the partially reassembled frame of the stream'
            else:
                for a, e in fin + rem:
                    if a != ('param', f.qualname, 'stream_id'):
                        ok, detail = False, 'entry removed under a key that is not the stream id passed in (line %s)' % e.line
        rep.add('C10.b', 'RSocketBase.finish_stream / both stores (%s)' % cls.name, f, ok, detail)


def rule_c(ctx):
    rep = ctx.report
    f = ctx.repo.func('rsocket.rsocket_base:RSocketBase.fire_and_forget')
    ps = [p for p in ctx.paths(f, ctx.slots.RSocketClient) if p.outcome == 'return']
    if not ps:
        raise AnalysisError('C10.c: fire_and_forget has no normal path')
    ok = True
    detail = ''
    for p in ps:
        enq = [e for e in p.events if is_enq_send(e, ctx.slots) or is_enq_lease(e, ctx.slots)]
        if not enq:
            raise AnalysisError('C10.c: fire_and_forget path without enqueue')
        frame = enq[0].data['args'][0]
        sid = model(ctx).frame_attr_before(p, frame.term, 'stream_id', enq[0].seq)
        sid_term = None
        for s in p.events:
            if s.kind == 'store' and s.data['target'][0] == 'attr' and s.data['target'][1] == frame.term and \
                    s.data['target'][2] == 'stream_id':
                sid_term = s.data['value'].term
        cbs = [e for e in p.events if e.kind == 'call' and e.data.get('name') == 'add_done_callback']
        released = False
        for cb in cbs:
            recv = cb.data['recv'].term
            # registered on the sent_future of the frame that was enqueued
            on_frame = recv[0] == 'attr' and recv[1] == frame.term or _future_of(p, frame.term, recv)
            for evs in cb.data.get('callback_paths') or []:
                for e in evs:
                    if is_gone(e, ctx.slots) and gone_key(e, ctx.slots) == sid_term and on_frame:
                        released = True
        if not released:
            ok = False
            detail = 'no done-callback on the frame\'s sent future releases the allocated stream id'
    rep.add('C10.c', 'RSocketBase.fire_and_forget / id released on send', f, ok,
            detail or 'the sent-future callback removes the table entry of the allocated id on all %d paths' % len(ps))


def _future_of(p, frame_term, recv_term):
    for s in p.events:
        if s.kind == 'store' and s.data['target'][0] == 'attr' and s.data['target'][1] == frame_term and \
                s.data['value'].term == recv_term:
            return True
    return False


def rule_d(ctx):
    # reassembly must not lose the complete flag of a fragmented REQUEST_CHANNEL (the channel would never finish)
    from .c03 import rule_c as c03c
    c03c(ctx, rule='C03.c')


def rule_order(ctx):
    # per-stream FIFO on the wire: a terminal/control frame must not overtake fragments of its own stream
    from .c05 import rule_a as c05a
    c05a(ctx)
    from .c05 import rule_f as c05f_
    c05f_(ctx)


def rule_e(ctx):
    """Stream table, reassembly cache, queues and handlers are per connection / per stream objects."""
    from . import plumbing
    plumbing.rule_shared_defaults(ctx, 'C10.d', ['rsocket.rsocket_', 'rsocket.stream_control', 'rsocket.frame_fragment',
                                                 'rsocket.handlers', 'rsocket.streams', 'rsocket.lease',
                                                 'rsocket.queue_peekable'], 'connection and stream state')


def rule_small_publishers(ctx):
    """EmptyStream / ErrorStream answer a request(n) with their one terminal signal and say nothing at subscribe()
    (shared C06.e): a channel requester subscribes its publisher before it queues REQUEST_CHANNEL, so a terminal
    signal at subscribe() would be sent ahead of the request, be dropped by the peer as an unknown stream, and leave the
    responder's half of the channel open for ever."""
    from .sources import rule_small_sources
    rule_small_sources(ctx, 'C06.e')


def rule_no_subscriber(ctx):
    """A channel endpoint whose application gives it no subscriber has nobody to deliver the inbound direction to:
    `subscribe(None)` must count that direction as complete on every path, otherwise the stream needs the peer's
    COMPLETE - which nothing ever asks for - to be released."""
    rep = ctx.report
    common = ctx.repo.cls('rsocket.handlers.request_cahnnel_common:RequestChannelCommon')
    n = 0
    inbound_seen = set()
    for k in sorted(ctx.repo.concrete_subclasses(common, include_self=False), key=lambda c: c.name):
        f = k.lookup('subscribe')
        if f is None:
            raise AnalysisError('C10.a: %s.subscribe vanished' % k.name)
        params = f.params()[1:]
        if not params:
            raise AnalysisError('C10.a: %s.subscribe takes no subscriber' % k.name)
        ps = [p for p in ctx.paths(f, k, args={params[0]: const(None)}, inline_depth=3) if p.outcome == 'return']
        # the two direction flags: what the both-closed test reads
        fin = k.lookup('_finish_if_both_closed')
        if fin is None:
            raise AnalysisError('C10.a: %s._finish_if_both_closed vanished' % k.name)
        flags = {n_.attr for t in walk_local(fin.node) if isinstance(t, ast.If) for n_ in ast.walk(t.test)
                 if isinstance(n_, ast.Attribute) and isinstance(n_.value, ast.Name) and n_.value.id == 'self'}
        if len(flags) != 2:
            raise AnalysisError('C10.a: the both-closed test of %s reads %d flags' % (k.name, len(flags)))
        ok = bool(ps)
        singles = set()
        for p in ps:
            marks = {e.data['target'][2] for e in p.events if e.kind == 'store' and e.data['target'][0] == 'attr' and
                     e.data['target'][2] in flags and strip_epoch(e.data['value'].term) == ('const', True)}
            if not marks:
                ok = False
            if len(marks) == 1:
                singles |= marks
        if len(singles) > 1:
            ok = False
        inbound_seen |= singles
        n += 1
        rep.add('C10.a', '%s.subscribe / without a subscriber the inbound direction counts as complete' % k.name, f,
                ok, 'every path with subscriber None marks the receive side complete (%d paths)' % len(ps) if ok else
                'subscribe(None) can leave the receive side open: the stream stays registered until the peer '
                'completes a direction nobody listens to')
    rep.require('C10.a', 'channel endpoint classes', n, 2)
    if len(inbound_seen) > 1:
        rep.bad('C10.a', 'channel subscribe(None) / one inbound flag', common,
                'requester and responder mark different flags (%s)' % sorted(inbound_seen))



def rule_adapter_cancellation(ctx):
    """A caller of the awaitable adapter that gives up (timeout, cancellation) releases the stream at both ends: the adapter awaits the socket's future itself, not through shield(), so the cancellation reaches the future whose done-callback sends CANCEL and finishes the stream (shared C01.h delegations)."""
    from .awaitable import rule_delegations
    rule_delegations(ctx, 'C01.h')



def rule_queue_only_drained_by_the_sender(ctx):
    """(shared C05.b)  Nothing but the sender takes a frame source out of the send queue: a fragmented frame stays queued
    until its last fragment has gone out, and removing it in between leaves the peer with a partial reassembly entry
    that nothing will ever complete (rules/c05.py)."""
    from .c05 import rule_b as c05b
    c05b(ctx)



def rule_reactions(ctx):
    """(shared C01.f)  What a handler does on each frame it receives is what the protocol tables say - in particular a
    requester that receives ERROR on a channel does not silently close its own sending direction, which would leave the
    responder waiting for a COMPLETE that never comes (rules/c01.py)."""
    from .c01 import rule_g as c01f
    c01f(ctx)


RULES = [('C10.a', rule_a), ('C10.b', rule_b), ('C10.c', rule_c), ('C05.a', rule_order), ('C03.c', rule_d), ('C10.d', rule_e), ('C10.a', rule_no_subscriber), ('C06.e', rule_small_publishers), ('C01.h', rule_adapter_cancellation), ('C05.b', rule_queue_only_drained_by_the_sender), ('C01.f', rule_reactions), ('C13.j', rule_release_needs_terminal), ('C10.e', rule_refused_request_is_released), ('C09.a', rule_cancel_always_cancels), ('C01.o', rule_default_subscriber_cannot_fail)]
