"""C04 Decoded frames are independent of how the byte stream is chunked."""
import ast

from .. import AnalysisError
from ..callgraph import callgraph
from ..effects import strip_epoch
from ..index import walk_local, ClassInfo
from ..interp import fmt_term, const, AVal
from ..layout import Atoms, to_lin, lower_read, LayoutError
from ..linear import Lin
from . import COMMON_ASSUMPTIONS
from .parserlib import while_progress

EXPLANATION = (
    'Decides that FrameParser.receive_data is a correct incremental consumer: (a) the completeness test, the slice '
    'handed to the frame decoder, the slice dropped from the buffer and the decrement of the byte counter all use '
    'the same linear form (frame length + size of the length prefix), and the decoded slice starts right after the '
    'prefix; (b) the "frame incomplete" exit leaves the buffer untouched; (c) in length-prefixed mode the length is '
    'read from the first prefix bytes of the buffer as a big-endian integer and from nowhere else; (d) the received '
    'chunk is appended to the buffer exactly once, before the loop; (e) the path through the decoder\'s exception '
    'handler reaches the same buffer advance as the success path and yields exactly one marker; (f) every transport '
    'that writes a length prefix decodes with prefix size 3 and every transport that writes bare frames decodes '
    'with prefix size 0; plus (shared with C12.e) every iteration consumes at least one byte. Not decided: equality '
    'of the decoded sequences for all partitions (a value property).')
EXPLANATION_ADDED = ('(g) the TCP transport hands every non-empty chunk, whole, to the parser and gives a chunk up only because it is empty; (h) what the decoder hands back on a parse failure (shared C12.a); (i) the receive loop is entered whenever the prefix bytes are buffered (message mode: for every non-empty message), so no complete frame is left in the buffer to shift the ones after it; the message transports raise only exceptions and yield everything else.')
EXPLANATION = EXPLANATION.replace(' Not decided', ' ' + EXPLANATION_ADDED + ' Not decided', 1) \
    if ' Not decided' in EXPLANATION else EXPLANATION + ' ' + EXPLANATION_ADDED
ASSUMPTIONS = COMMON_ASSUMPTIONS

PARSER = 'rsocket.frame_parser:FrameParser'


def _receive(ctx):
    c = ctx.repo.cls(PARSER)
    f = c.lookup('receive_data')
    if f is None:
        raise AnalysisError('C04: FrameParser.receive_data vanished')
    return c, f


def rule_a(ctx):
    rep = ctx.report
    c, f = _receive(ctx)
    buf_attr = None
    for n in walk_local(f.node):
        if isinstance(n, ast.Call) and isinstance(n.func, ast.Attribute) and n.func.attr == 'extend' and \
                isinstance(n.func.value, ast.Attribute):
            buf_attr = n.func.value.attr
    if buf_attr is None:
        raise AnalysisError('C04: cannot identify the receive buffer (no extend())')
    ctx.cache['parser_buf'] = buf_attr
    results = {}
    guards = {}
    try:
        min_frame = int(ctx.repo.const(ctx.repo.module('rsocket.frame'), ast.Name(id='HEADER_LENGTH', ctx=ast.Load())))
    except (KeyError, TypeError, ValueError):
        raise AnalysisError('C04.a: HEADER_LENGTH of rsocket.frame is not a constant')
    guard_nodes = set()
    for n in walk_local(f.node):
        if isinstance(n, ast.While):
            guard_nodes.add(n.test)
            for x in ast.walk(n.test):
                guard_nodes.add(x)
    for h in (3, 0):
        paths = ctx.paths(f, c, args={'header_length': const(h)}, no_inline={'parse_or_ignore'},
                          symbolic_compare=False)
        its = [p for p in paths if any(e.kind == 'loop' and e.data.get('phase') == 'back' for e in p.events)]
        if not its:
            raise AnalysisError('C04.a: no full iteration of the receive loop with header_length=%d' % h)
        for p in its:
            atoms = Atoms()
            forms = {}
            # completeness test: lt(total, X) evaluated False to continue
            for e in p.events:
                if e.kind == 'cond':
                    k = strip_epoch(e.data['key'])
                    if k[0] == 'lt' and 'len' in repr(k[1]) and e.data['value'] is False and 'complete' not in forms \
                            and e.func.name == 'receive_data' and k[2][0] != 'const':
                        forms['complete'] = to_lin(k[2], atoms)
                if e.kind == 'call' and e.data.get('name') == 'parse_or_ignore':
                    t = strip_epoch(e.data['args'][0].term)
                    if t[0] == 'item' and t[2][0] == 'slice':
                        lo = Lin.k(0) if t[2][1] == ('const', None) else to_lin(t[2][1], atoms)
                        forms['parsed_lo'] = lo
                        forms['parsed_hi'] = to_lin(t[2][2], atoms) if t[2][2] != ('const', None) else None
                if e.kind == 'store' and e.data['target'][0] == 'attr' and e.data['target'][2] == buf_attr:
                    t = strip_epoch(e.data['value'].term)
                    if t[0] == 'item' and t[2][0] == 'slice':
                        forms['dropped'] = to_lin(t[2][1], atoms) if t[2][1] != ('const', None) else Lin.k(0)
                        forms['dropped_open'] = t[2][2] == ('const', None)
                if e.kind == 'store' and e.data['target'][0] == 'local' and e.data.get('aug') == 'Sub':
                    t = strip_epoch(e.data['value'].term)
                    if t[0] == 'op' and t[1] == 'Sub':
                        forms['decrement'] = to_lin(t[3], atoms)
            # the loop guard: the first test of the while statement on this path
            for e in p.events:
                if e.kind == 'cond' and e.node in guard_nodes and 'guard_seen' not in forms:
                    k = strip_epoch(e.data['key'])
                    # normalise to 'entered iff count >= thr'
                    thr_form = None
                    if k[0] in ('lt', 'le') and len(k) == 3:
                        count_left = 'len' in repr(k[1]) and 'len' not in repr(k[2])
                        count_right = 'len' in repr(k[2]) and 'len' not in repr(k[1])
                        try:
                            if count_left and e.data['value'] is False:
                                # not (count < B) / not (count <= B)
                                thr_form = to_lin(k[2], atoms) + Lin.k(0 if k[0] == 'lt' else 1)
                            elif count_right and e.data['value'] is True:
                                # A < count / A <= count
                                thr_form = to_lin(k[1], atoms) + Lin.k(1 if k[0] == 'lt' else 0)
                        except LayoutError:
                            thr_form = None
                    forms['guard'] = thr_form
                    forms['guard_seen'] = True
            missing = [k for k in ('complete', 'parsed_lo', 'parsed_hi') if k not in forms]
            if missing:
                raise AnalysisError('C04.a: cannot find %s in an iteration (header_length=%d)' % (missing, h))
            unconsumed = [k for k in ('dropped', 'decrement') if k not in forms]
            if unconsumed and (not forms['parsed_lo'].is_const() or _cursor_form(f)):
                # the decoded slice starts at a variable: the parser walks its buffer with a cursor and drops what it
                # consumed elsewhere - a form these rules were not written for; they do not guess
                raise AnalysisError('C04.a: the parser decodes buffer[%r:...]: a cursor-based receive loop is outside '
                                    'the idiom table of the chunking rules' % forms['parsed_lo'])
            if unconsumed:
                # a full trip round the loop that handed a frame to the decoder but did not take it out of the buffer
                results.setdefault(h, []).append((False, 'an iteration decodes a frame and goes round without %s: '
                                                  'the same bytes are parsed again with the next read and every '
                                                  'later frame is shifted' % (
                                                      'removing it from the buffer' if 'dropped' in unconsumed else
                                                      'reducing the byte counter')))
                g = forms.get('guard')
                thr = g.const if g is not None and g.is_const() else None
                guards.setdefault(h, []).append((thr is not None, g))
                continue
            ok = True
            detail = ''
            if forms['parsed_lo'] != Lin.k(h):
                ok, detail = False, 'the decoded slice starts at %r, not right after the %d-byte prefix' % (
                    forms['parsed_lo'], h)
            elif forms['parsed_hi'] is None or forms['parsed_hi'] != forms['complete']:
                ok, detail = False, 'the decoded slice ends at %r but the completeness test waits for %r bytes' % (
                    forms['parsed_hi'], forms['complete'])
            elif forms['dropped'] != forms['complete'] or not forms.get('dropped_open'):
                ok, detail = False, 'the buffer is advanced by %r but the frame occupied %r bytes' % (
                    forms['dropped'], forms['complete'])
            elif forms['decrement'] != forms['complete']:
                ok, detail = False, 'the byte counter is reduced by %r but the frame occupied %r bytes' % (
                    forms['decrement'], forms['complete'])
            if not forms.get('guard_seen'):
                raise AnalysisError('C04.a: the loop guard of receive_data was not evaluated on an iteration path')
            g = forms.get('guard')
            # entered iff the buffered byte count is at least the threshold
            # (a valid frame has at least the 6 header bytes, so in prefix mode a threshold up to prefix + 6 only
            # delays the marker of a runt frame; in message mode every non-empty message must be taken)
            lo_ok, hi_ok = (3, 3 + min_frame) if h else (0, 1)
            thr = g.const if g is not None and g.is_const() else None
            guard_ok = thr is not None and lo_ok <= thr <= hi_ok
            guards.setdefault(h, []).append((guard_ok, g))
            results.setdefault(h, []).append((ok, detail))
    for h, lst in sorted(guards.items()):
        badg = [g for ok, g in lst if not ok]
        rep.add('C04.a', 'FrameParser.receive_data / the loop takes every buffered frame (prefix size %d)' % h, f,
                not badg,
                'the loop is entered whenever at least the %d prefix bytes are buffered; only the completeness test '
                'ends it' % h if not badg else
                'the loop is entered only when the buffer holds at least %r bytes: %s' % (
                    badg[0], 'a message shorter than that is never taken out of the buffer and shifts every later '
                    'message' if h == 0 else 'outside the range [prefix, prefix + minimum frame] a length is read from '
                    'too few bytes or a complete frame waits for bytes that may never come'))
    for h, lst in sorted(results.items()):
        bad = [d for ok, d in lst if not ok]
        rep.add('C04.a', 'FrameParser.receive_data / one frame extent everywhere (prefix size %d)' % h, f, not bad,
                bad[0] if bad else 'completeness test, decoded slice, dropped slice and counter decrement agree on %d '
                                   'iteration paths' % len(lst))


def rule_b(ctx):
    rep = ctx.report
    c, f = _receive(ctx)
    buf_attr = ctx.cache.get('parser_buf') or '_buffer'
    ok = True
    n = 0
    for h in (3, 0):
        for p in ctx.paths(f, c, args={'header_length': const(h)}, no_inline={'parse_or_ignore'}):
            if p.outcome != 'return':
                continue
            # return taken at the completeness test of an iteration: no buffer store in that iteration
            ret = [e for e in p.events if e.kind == 'return']
            conds = [e for e in p.events if e.kind == 'cond' and strip_epoch(e.data['key'])[0] == 'lt' and
                     e.data['value'] is True and 'len' in repr(e.data['key'][1])]
            if not conds or not ret or ret[-1].seq < conds[-1].seq:
                continue
            n += 1
            stores = [e for e in p.events if e.kind == 'store' and e.data['target'][0] == 'attr' and
                      e.data['target'][2] == buf_attr]
            if stores:
                ok = False
    if n == 0:
        raise AnalysisError('C04.b: no "frame incomplete" exit found')
    rep.add('C04.b', 'FrameParser.receive_data / incomplete frame leaves the buffer untouched', f, ok,
            'no store to the buffer on the %d paths that wait for more bytes' % n if ok else
            'a path that waits for more bytes has already modified the buffer')


def rule_c(ctx):
    rep = ctx.report
    c, f = _receive(ctx)
    buf_attr = ctx.cache.get('parser_buf') or '_buffer'
    paths = ctx.paths(f, c, args={'header_length': const(3)}, no_inline={'parse_or_ignore'}, stable_attrs=True,
                      inline_depth=3)
    ok = True
    detail = ''
    n = 0
    for p in paths:
        first = True
        for e in p.events:
            vt = strip_epoch(e.data['value'].term) if e.kind == 'store' else None
            # the length: the first local of receive_data itself whose value is decoded from bytes (directly or
            # through the unpack helpers, which are inlined); later locals are computed from it
            if e.kind == 'store' and e.data['target'][0] == 'local' and e.func is f and isinstance(vt, tuple) and \
                    'unpack' in repr(vt) and vt[0] in ('item', 'unpack', 'op') and first:
                first = False
                n += 1
                atoms = Atoms()

                def buffer_ok(t):
                    t = strip_epoch(t)
                    return t == ('attr', ('self',), buf_attr)
                try:
                    r = lower_read(e.data['value'].term, atoms, buffer_ok)
                except LayoutError as ex:
                    ok, detail = False, 'the frame length is not read from the buffer prefix (%s)' % ex
                    continue
                if r is None or r.kind != 'int':
                    ok, detail = False, 'the frame length is not an integer read from the buffer'
                elif r.nbytes > 3:
                    ok, detail = False, ('the frame length is decoded from %d bytes of the buffer, but the loop only '
                                         'guarantees the 3 prefix bytes: a read that ends right after a length prefix '
                                         'makes the decoder raise' % r.nbytes)
                elif r.pos != Lin.k(0) or r.nbytes != 3 or r.value_bits() != 24:
                    ok, detail = False, 'the frame length is read as %d bytes / %s bits at %r, expected the first 3 ' \
                                        'bytes' % (r.nbytes, r.value_bits(), r.pos)
                elif r.bits[:24] != [23 - j for j in range(24)]:
                    ok, detail = False, 'the frame length is not decoded big-endian'
    if n == 0:
        raise AnalysisError('C04.c: the frame length is never computed in prefixed mode')
    rep.add('C04.c', 'FrameParser.receive_data / length from the 3-byte big-endian prefix', f, ok,
            detail or 'the length is the first three buffer bytes, big-endian')


def rule_d(ctx):
    rep = ctx.report
    c, f = _receive(ctx)
    ok = True
    detail = ''
    n = 0
    for h in (3, 0):
        for p in ctx.paths(f, c, args={'header_length': const(h)}, no_inline={'parse_or_ignore'}):
            ext = [e for e in p.events if e.kind == 'call' and e.data.get('name') == 'extend']
            loops = [e for e in p.events if e.kind == 'loop']
            empty = [e for e in p.events if e.kind == 'cond' and 'len' in repr(e.data['key']) and
                     e.data['key'][0] == 'eq' and e.data['value'] is True]
            if empty and not ext and p.outcome == 'return':
                continue  # empty chunk: nothing to append
            n += 1
            if len(ext) != 1:
                ok, detail = False, 'the chunk is appended %d times' % len(ext)
            elif loops and ext[0].seq > loops[0].seq:
                ok, detail = False, 'the chunk is appended inside the loop'
            elif strip_epoch(ext[0].data['args'][0].term) != ('param', f.qualname, 'data'):
                ok, detail = False, 'something other than the received chunk is appended'
    rep.add('C04.d', 'FrameParser.receive_data / chunk appended once, before the loop', f, ok and n > 0,
            detail or 'extend(data) exactly once on all %d paths' % n)



def _cursor_form(f):
    """The receive loop hands the decoder a slice whose lower bound moves with a variable the loop itself advances: the
    parser walks its buffer with a cursor instead of cutting the consumed frame off."""
    for loop in [n for n in walk_local(f.node) if isinstance(n, ast.While)]:
        assigned = {x.id for st in loop.body for x in ast.walk(st) if isinstance(x, ast.Name) and
                    isinstance(x.ctx, ast.Store)}
        for c in ast.walk(loop):
            if isinstance(c, ast.Call) and isinstance(c.func, ast.Name) and c.func.id == 'parse_or_ignore' and c.args and \
                    isinstance(c.args[0], ast.Subscript) and isinstance(c.args[0].slice, ast.Slice) and \
                    c.args[0].slice.lower is not None:
                if {x.id for x in ast.walk(c.args[0].slice.lower) if isinstance(x, ast.Name)} & assigned:
                    return True
    return False



def rule_e(ctx):
    rep = ctx.report
    c, f = _receive(ctx)
    buf_attr = ctx.cache.get('parser_buf') or '_buffer'
    ok = True
    detail = ''
    n_exc = 0
    for h in (3, 0):
        for p in ctx.paths(f, c, args={'header_length': const(h)}, no_inline={'parse_or_ignore'}, exc=('app',)):
            calls = [e for e in p.events if e.kind == 'call' and e.data.get('name') == 'parse_or_ignore']
            if not calls:
                continue
            raised = [e for e in p.events if e.kind == 'raise' and e.data.get('call') == calls[0].seq]
            if not raised:
                continue
            n_exc += 1
            if p.outcome == 'raise':
                ok, detail = False, 'a decoder exception leaves receive_data'
                continue
            adv = [e for e in p.events if e.kind == 'store' and e.data['target'][0] == 'attr' and
                   e.data['target'][2] == buf_attr and e.seq > raised[0].seq]
            ys = [e for e in p.events if e.kind == 'yield' and e.seq > raised[0].seq and
                  (not adv or e.seq < adv[0].seq)]
            if not adv:
                arg = strip_epoch(calls[0].data['args'][0].term) if calls[0].data.get('args') else None
                if _cursor_form(f) or (arg is not None and arg[0] == 'item' and arg[2][0] == 'slice' and
                                       arg[2][1][0] not in ('const',) and 'header_length' not in repr(arg[2][1])):
                    raise AnalysisError('C04.e: cursor-based receive loop: outside the idiom table of the chunking rules')
                ok, detail = False, 'after a decoder exception the undecodable frame is not dropped from the buffer'
            elif len(ys) != 1:
                ok, detail = False, 'a decoder exception yields %d markers' % len(ys)
            else:
                v = ys[0].data['value']
                if not v.types or next(iter(v.types)).name != 'InvalidFrame':
                    ok, detail = False, 'the marker yielded for an undecodable frame is not InvalidFrame'
    if n_exc == 0:
        raise AnalysisError('C04.e: the decoder call has no exception edge')
    rep.add('C04.e', 'FrameParser.receive_data / undecodable frame skipped exactly', f, ok,
            detail or 'on %d exception paths: one InvalidFrame marker, then the same buffer advance' % n_exc)


def rule_f(ctx):
    rep = ctx.report
    slots = ctx.slots
    cg = callgraph(ctx)
    c, f = _receive(ctx)
    n = 0
    # which functions call receive_data with which prefix size
    sites = []
    for g in ctx.repo.all_functions():
        if not g.module.name.startswith('rsocket.transports'):
            continue
        for node in walk_local(g.node):
            if isinstance(node, ast.Call) and isinstance(node.func, ast.Attribute) and \
                    node.func.attr == 'receive_data' and 'frame_parser' in ast.unparse(node.func.value):
                h = 3
                if len(node.args) > 1:
                    h = ctx.repo.try_const(g.module, node.args[1], '?')
                for kw in node.keywords:
                    if kw.arg == 'header_length':
                        h = ctx.repo.try_const(g.module, kw.value, '?')
                sites.append((g, node, h))
    rep.require('C04.f', 'decoder call sites in the transports', len(sites), 6)
    for t in ctx.repo.concrete_subclasses(slots.Transport):
        sf = t.lookup('send_frame')
        if sf is None:
            continue
        reach = cg.reachable_from(sf, limit=80)
        prefixed = any('frame_size_header' in g.name for g in reach)
        mine = [(g, node, h) for g, node, h in sites if _belongs(ctx, g, t)]
        if not mine:
            rep.note('C04.f: no decoder call site attributed to %s' % t.name)
            continue
        n += 1
        hs = {h for _, _, h in mine}
        want = 3 if prefixed else 0
        ok = hs == {want}
        rep.add('C04.f', '%s / framing of sender and decoder agree' % t.name, t, ok,
                'writes %s, decodes with prefix size %s' % ('a length prefix' if prefixed else 'bare frames', want)
                if ok else '%s writes %s but decodes with prefix size %s' % (
                    t.name, 'a 3-byte length prefix' if prefixed else 'bare frames', sorted(map(str, hs))))
    rep.require('C04.f', 'transports with an attributed decoder call', n, 6)


def _belongs(ctx, g, t: ClassInfo) -> bool:
    """Is function g part of transport class t (a method of it / of a base) or a helper defined in its module that
    refers to the transport (e.g. a websocket consumer feeding transport._frame_parser)."""
    if g.cls is not None and (g.cls is t or t.is_subclass_of(g.cls)):
        return g.cls is t or not [k for k in ctx.repo.subclasses(g.cls) if k is not t and g.name in k.methods]
    if g.module is t.module and g.cls is not None and not g.cls.is_subclass_of(ctx.slots.Transport):
        return True
    return False


def rule_g(ctx):
    rep = ctx.report
    c, f = _receive(ctx)
    loops = [n for n in walk_local(f.node) if isinstance(n, ast.While)]
    if len(loops) != 1:
        raise AnalysisError('C04: expected one loop in receive_data')
    for h in (3, 0):
        n, problem = while_progress(ctx, f, c, loops[0], args={'header_length': const(h)},
                                    no_inline={'parse_or_ignore'})
        if n == 0:
            raise AnalysisError('C12.e: no iteration path of the receive loop (prefix %d)' % h)
        rep.add('C12.e', 'FrameParser.receive_data / every iteration consumes input (prefix size %d)' % h,
                (f.file, loops[0].lineno), problem is None,
                problem or 'the remaining byte count shrinks by at least 1 on all %d iteration paths' % n)


def rule_i(ctx):
    """Byte-stream transport, receive side: every non-empty chunk read is handed to the frame parser, whole; a chunk is
    given up only because it is empty (end of stream) - never because of something else the transport knows (EOF flag,
    buffer state), which would make the decoded frames depend on how the bytes were split into reads."""
    rep = ctx.report
    c = ctx.repo.cls('rsocket.transports.tcp:TransportTCP')
    f = c.lookup('next_frame_generator')
    if f is None:
        raise AnalysisError('C04.g: TransportTCP.next_frame_generator vanished')
    ok = True
    why = ''
    n_parse = n_end = 0
    for p in ctx.paths(f, c, inline_depth=1, no_inline={'receive_data'}):
        if p.outcome != 'return':
            continue
        reads = [e for e in p.events if e.kind == 'call' and e.data.get('name') in ('read', 'readexactly') and
                 e.data.get('awaited')]
        if len(reads) != 1:
            ok, why = False, 'a call reads %d chunks' % len(reads)
            continue
        chunk = ('awaited', strip_epoch(reads[0].data['value'].term))
        parses = [e for e in p.events if e.kind == 'call' and e.data.get('name') == 'receive_data']
        empt = [c_ for c_ in p.events if c_.kind == 'cond' and c_.data['key'][0] == 'truth' and
                strip_epoch(c_.data['key'][1]) in (chunk, chunk[1])]
        if parses:
            n_parse += 1
            a = strip_epoch(parses[0].data['args'][0].term) if parses[0].data.get('args') else None
            if len(parses) != 1 or a not in (chunk, chunk[1]):
                ok, why = False, 'what is handed to the frame parser is not the chunk read'
            if strip_epoch(p.value.term) != strip_epoch(parses[0].data['value'].term):
                ok, why = False, 'the frames decoded from the chunk are not what the transport returns'
        else:
            n_end += 1
            if not empt or empt[-1].data['value'] is not False:
                ok, why = False, ('a chunk that is not known to be empty is dropped without being parsed (line %s): '
                                  'whether its frames are seen depends on when the bytes were read' % reads[0].line)
    rep.add('C04.g', 'TransportTCP.next_frame_generator / every non-empty chunk goes to the parser', f,
            ok and n_parse > 0 and n_end > 0,
            why or 'read -> empty: end of stream | otherwise: frame_parser.receive_data(chunk) returned (%d + %d '
                   'paths)' % (n_end, n_parse))


def rule_j(ctx):
    """Message transports, receive side (shared base class): each queued element is either an exception - and only
    then raised - or is yielded as the one frame of its message, invalid-frame markers included (the marker is not an
    exception and not a Frame; raising it kills the receiver)."""
    rep = ctx.report
    c = ctx.repo.cls('rsocket.transports.abstract_messaging:AbstractMessagingTransport')
    f = c.lookup('next_frame_generator')
    if f is None:
        raise AnalysisError('C04.h: AbstractMessagingTransport.next_frame_generator vanished')
    ok = True
    why = ''
    n_raise = n_ret = 0
    for p in ctx.paths(f, c, inline_depth=0, exc=()):
        gets = [e for e in p.events if e.kind == 'call' and e.data.get('name') == 'get' and e.data.get('awaited')]
        if len(gets) != 1:
            ok, why = False, 'a call does not take exactly one element from the incoming queue'
            continue
        el = ('awaited', strip_epoch(gets[0].data['value'].term))
        tests = [x for x in p.events if x.kind == 'cond' and x.data['key'][0] == 'isinstance' and
                 strip_epoch(x.data['key'][1]) in (el, el[1])]
        is_exc = None
        for x in tests:
            names = {str(nm).split(':')[-1].split('.')[-1] for nm in x.data['key'][2]}
            if names and names <= {'Exception', 'BaseException'} | {k.name for k in ctx.repo.all_classes()
                                                                     if k.name.endswith(('Error', 'Exception'))}:
                is_exc = x.data['value']
        if p.outcome == 'raise':
            n_raise += 1
            if strip_epoch(p.value.term) in (el, el[1]) and is_exc is not True:
                ok, why = False, ('the element taken from the queue is raised without being known to be an exception '
                                  '(an invalid-frame marker is neither an exception nor a Frame)')
        elif p.outcome == 'return':
            n_ret += 1
            if is_exc is True:
                ok, why = False, 'an exception taken from the queue is not raised'
            gen = f.children.get('frame_generator') or (list(f.children.values()) or [None])[0]
            yields = [y for y in walk_local(gen.node) if isinstance(y, ast.Yield)] if gen is not None else []
            if gen is None or len(yields) != 1 or not isinstance(yields[0].value, ast.Name) or \
                    any(isinstance(x, (ast.For, ast.While, ast.AsyncFor)) for x in walk_local(gen.node)):
                ok, why = False, 'the generator returned does not yield the element exactly once'
    rep.add('C04.h', 'AbstractMessagingTransport.next_frame_generator / exceptions raised, everything else yielded once',
            f, ok and n_raise > 0 and n_ret > 0,
            why or 'isinstance(element, Exception) -> raise; otherwise a generator yielding the element once')


def rule_k(ctx):
    """Each transport decodes with its own parser and buffer (a parser shared between connections would splice their
    byte streams)."""
    from . import plumbing
    plumbing.rule_shared_defaults(ctx, 'C04.i', ['rsocket.transports', 'rsocket.frame_parser'], 'transports and parser')


def rule_h(ctx):
    """A correctly delimited but undecodable frame produces no frame or one marker: what the decoder hands back on a
    parse failure (shared C12.a; c12 imports this module, hence the late import)."""
    from .c12 import rule_a as c12a
    c12a(ctx)



def rule_decoder_entry(ctx):
    """What the stream decoder hands each delimited frame to: parse_or_ignore returns the decoded frame, refuses only buffers shorter than the header and turns a parse failure into CONNECTION_ERROR or nothing (shared C02.h)."""
    from .c02 import rule_decoder_entry as de
    de(ctx, 'C02.h')



def rule_marker_queues(ctx):
    """C04.j  Queues that carry the end-of-connection marker next to data are read item by item, each item tested
    before use (rules/msgtransports.py)."""
    from .msgtransports import rule_marker_queues_read_item_by_item as r
    r(ctx, 'C04.j')



def rule_decoded_frames_yielded(ctx):
    """C04.k  Every frame the decoder hands back is handed on, once: on the paths of one loop iteration where
    parse_or_ignore returns without raising, a result that is not None is yielded exactly once - the very object, before
    the buffer advance of that iteration - and None (a frame to ignore) yields nothing."""
    rep = ctx.report
    c, f = _receive(ctx)
    buf_attr = ctx.cache.get('parser_buf') or '_buffer'
    ok, detail = True, ''
    n_some = n_none = 0
    for h in (3, 0):
        for p in ctx.paths(f, c, args={'header_length': const(h)}, no_inline={'parse_or_ignore'}, exc=('app',),
                           symbolic_compare=True):
            calls = [e for e in p.events if e.kind == 'call' and e.data.get('name') == 'parse_or_ignore']
            for i, call in enumerate(calls):
                if [e for e in p.events if e.kind == 'raise' and e.data.get('call') == call.seq]:
                    continue
                horizon = calls[i + 1].seq if i + 1 < len(calls) else 10 ** 9
                res = strip_epoch(call.data['value'].term)
                isnone = None
                for e in p.events:
                    if e.kind == 'cond' and call.seq < e.seq < horizon:
                        k = strip_epoch(e.data['key'])
                        if k[0] == 'isnone' and k[1] == res:
                            isnone = bool(e.data['value'])
                        elif k[0] == 'truth' and k[1] == res:
                            isnone = not bool(e.data['value'])
                adv = [e for e in p.events if e.kind == 'store' and e.data['target'][0] == 'attr' and
                       e.data['target'][2] == buf_attr and call.seq < e.seq < horizon]
                ys = [e for e in p.events if e.kind == 'yield' and call.seq < e.seq < horizon]
                if isnone is None:
                    if p.outcome == 'cut' and not adv:
                        continue
                    ok, detail = False, 'the decoder\'s result is handed on or dropped without asking whether it is None'
                    continue
                if isnone:
                    n_none += 1
                    if ys and (not adv or ys[0].seq < adv[0].seq):
                        ok, detail = False, 'a frame to ignore (None) is yielded'
                else:
                    mine = [y for y in ys if strip_epoch(y.data['value'].term) == res]
                    if not adv and p.outcome == 'cut':
                        continue
                    n_some += 1
                    if len(mine) != 1:
                        ok, detail = False, 'a decoded frame is yielded %d times' % len(mine)
                    elif adv and mine[0].seq > adv[0].seq:
                        pass  # order against the advance is immaterial for the consumer
    rep.add('C04.k', 'FrameParser.receive_data / every decoded frame is yielded once, None never', f,
            ok and n_some > 0 and n_none > 0, detail or '%d decoded, %d ignored results on the enumerated paths' % (
                n_some, n_none))




def rule_short_fields_fail(ctx):
    """C04.l  A frame that is cut short inside a fixed-width field is undecodable.  The parse methods hand the field
    decoders slices (`buffer[offset:offset + 8]`), and a slice past the end is silently shorter: it is the decoder that
    must fail on it.  struct.unpack / unpack_from and cbitstruct.unpack do (the format fixes the size); indexing does;
    `int.from_bytes` does not - it accepts any number of bytes, the empty string included - so a correctly delimited
    but truncated KEEPALIVE / RESUME frame decodes into an ordinary frame with an invented value instead of producing
    the invalid-frame marker.  Every `int.from_bytes` in the codecs is therefore preceded, in its function, by an
    explicit test of the length of what it decodes."""
    rep = ctx.report
    n_dec = 0
    bad = []
    for f in ctx.repo.all_functions():
        if not f.module.name.startswith('rsocket.') or f.module.name.startswith('rsocket.cli'):
            continue
        for x in walk_local(f.node):
            if isinstance(x, ast.Call) and isinstance(x.func, ast.Attribute):
                if x.func.attr in ('unpack', 'unpack_from') and isinstance(x.func.value, ast.Name) and \
                        x.func.value.id in ('struct', 'cbitstruct'):
                    n_dec += 1
                if x.func.attr == 'from_bytes' and x.args:
                    n_dec += 1
                    subject = {y.id for y in ast.walk(x.args[0]) if isinstance(y, ast.Name)}
                    guarded = False
                    for g in walk_local(f.node):
                        if isinstance(g, (ast.If, ast.Assert)) and g.lineno < x.lineno:
                            t = g.test
                            if any(isinstance(c, ast.Call) and isinstance(c.func, ast.Name) and c.func.id == 'len' and
                                   c.args and subject & {y.id for y in ast.walk(c.args[0]) if isinstance(y, ast.Name)}
                                   for c in ast.walk(t)):
                                guarded = True
                    if not guarded:
                        bad.append((f, x))
    for f, x in bad:
        rep.bad('C04.l', '%s / %s decodes whatever it is given' % (f.qualname.split(':')[-1], ast.unparse(x)[:60]), f,
                'int.from_bytes accepts fewer bytes than the field has (a slice past the end of a truncated frame is '
                'silently short): a frame cut inside this field decodes instead of being marked invalid')
    rep.require('C04.l', 'fixed-width decoders in the library', n_dec, 15)
    if not bad:
        rep.ok('C04.l', 'field decoders / every decoder fails on a short field',
               ctx.repo.func('rsocket.frame:parse_or_ignore'),
               '%d struct / cbitstruct / from_bytes decoders; every from_bytes is behind a length test' % n_dec)




def rule_queue_items(ctx):
    """(C04.m, rules/msgtransports.py)  What a message transport queues for the receive loop comes from the frame
    parser (or is the end-of-connection marker)."""
    from .msgtransports import rule_queue_items_come_from_the_parser
    rule_queue_items_come_from_the_parser(ctx, 'C04.m')




def rule_buffer_never_emptied(ctx):
    """C04.n  Bytes leave the parser's buffer only as the consumed prefix of a frame.  Between two reads the buffer holds
    the beginning of the next frame - possibly only one or two bytes of its length prefix; a statement that empties the
    buffer (`clear()`, an empty bytes / bytearray assigned to it) throws those bytes away and every later frame is
    mis-delimited.  In receive_data such a statement is allowed only under a test that everything received has been
    consumed (an `==` / `>=` / `<=` comparison between a position and the number of bytes held)."""
    rep = ctx.report
    c, f = _receive(ctx)
    buf_attr = ctx.cache.get('parser_buf') or '_buffer'
    parents = {}
    for x in ast.walk(f.node):
        for ch in ast.iter_child_nodes(x):
            parents[ch] = x
    bad = []
    n = 0
    for x in walk_local(f.node):
        empt = None
        if isinstance(x, ast.Call) and isinstance(x.func, ast.Attribute) and x.func.attr == 'clear' and \
                isinstance(x.func.value, ast.Attribute) and x.func.value.attr == buf_attr:
            empt = x
        if isinstance(x, ast.Assign) and any(isinstance(t, ast.Attribute) and t.attr == buf_attr for t in x.targets):
            n += 1
            v = x.value
            if (isinstance(v, ast.Constant) and v.value in (b'', None)) or (
                    isinstance(v, ast.Call) and isinstance(v.func, ast.Name) and v.func.id in ('bytearray', 'bytes') and
                    not v.args):
                empt = x
        if isinstance(x, ast.Delete):
            n += 1
        if empt is None:
            continue
        guarded = False
        y = empt
        while y in parents:
            p = parents[y]
            if isinstance(p, ast.If) and any(y is b or y in list(ast.walk(b)) for b in p.body) and \
                    isinstance(p.test, ast.Compare) and len(p.test.ops) == 1 and \
                    isinstance(p.test.ops[0], (ast.Eq, ast.GtE, ast.LtE)) and \
                    any(w in ast.unparse(p.test) for w in ('len(', 'total')):
                guarded = True
            y = p
        if not guarded:
            bad.append(empt)
    for e in bad:
        rep.bad('C04.n', 'FrameParser.receive_data / line %d empties the buffer' % e.lineno, f,
                'the buffer is emptied without a test that everything received was consumed: the first bytes of a '
                'frame that has started to arrive (one or two bytes of a length prefix) are thrown away')
    if not bad:
        rep.ok('C04.n', 'FrameParser.receive_data / bytes leave the buffer only as a consumed prefix', f,
               'no statement empties the buffer')



RULES = [('C04.a', rule_a), ('C04.b', rule_b), ('C04.c', rule_c), ('C04.d', rule_d), ('C04.e', rule_e),
         ('C04.f', rule_f), ('C12.e', rule_g), ('C12.a', rule_h), ('C04.g', rule_i), ('C04.h', rule_j), ('C04.i', rule_k), ('C02.h', rule_decoder_entry), ('C04.j', rule_marker_queues), ('C04.k', rule_decoded_frames_yielded), ('C04.l', rule_short_fields_fail), ('C04.m', rule_queue_items), ('C04.n', rule_buffer_never_emptied)]
