"""Shared pieces for C04/C12/C18: lower bounds of integer terms (intervals with guard refinement) and loop progress."""
import ast

from ..linear import Lin
from typing import Optional, Dict

from .. import AnalysisError
from ..effects import strip_epoch
from ..interp import fmt_term, Path
from ..layout import struct_fields, cbit_fields


def path_facts(p: Path, upto_seq=None) -> Dict:
    """Lower bounds implied by the comparisons taken on the path: {term: lower bound}."""
    lb = {}
    ne0 = set()
    for e in p.events:
        if upto_seq is not None and e.seq >= upto_seq:
            break
        if e.kind != 'cond':
            continue
        k = strip_epoch(e.data['key'])
        v = e.data['value']
        if k[0] == 'lt':
            a, b = k[1], k[2]
            if a[0] == 'const' and isinstance(a[1], (int, float)):
                if v:  # a < b
                    lb[b] = max(lb.get(b, a[1] + 1), a[1] + 1)
            if b[0] == 'const' and isinstance(b[1], (int, float)):
                if not v:  # not (a < b)  => a >= b
                    lb[a] = max(lb.get(a, b[1]), b[1])
        elif k[0] == 'eq':
            a, b = k[1], k[2]
            for x, y in ((a, b), (b, a)):
                if y == ('const', 0) and not v:
                    ne0.add(x)
        elif k[0] == 'truth' and isinstance(k[1], tuple) and k[1] and k[1][0] == 'cmp':
            c = k[1]
            if c[1] in ('Eq', 'NotEq') and ('const', 0) in c[2:]:
                x = c[2] if c[3] == ('const', 0) else c[3]
                is_zero = v if c[1] == 'Eq' else not v
                if not is_zero:
                    ne0.add(x)
            if c[1] in ('Gt', 'GtE', 'Lt', 'LtE'):
                a, b = c[2], c[3]
                op = c[1]
                if not v:
                    op = {'Gt': 'LtE', 'GtE': 'Lt', 'Lt': 'GtE', 'LtE': 'Gt'}[op]
                if b[0] == 'const' and op in ('Gt', 'GtE'):
                    lb[a] = max(lb.get(a, -10 ** 18), b[1] + (1 if op == 'Gt' else 0))
                if a[0] == 'const' and op in ('Lt', 'LtE'):
                    lb[b] = max(lb.get(b, -10 ** 18), a[1] + (1 if op == 'Lt' else 0))
    return {'lb': lb, 'ne0': ne0}


def lower_bound(t, facts, param_values=None) -> Optional[int]:
    """Lower bound of an integer-valued term, or None when nothing is known."""
    t = strip_epoch(t)
    lbs = facts['lb']
    if t in lbs:
        base = lbs[t]
    else:
        base = None
    k = t[0]
    val = None
    if k == 'const' and isinstance(t[1], (int, bool)):
        val = int(t[1])
    elif k == 'op':
        op, a, b = t[1], t[2], t[3]
        la, lb_ = lower_bound(a, facts, param_values), lower_bound(b, facts, param_values)
        if op == 'Add' and la is not None and lb_ is not None:
            val = la + lb_
        elif op == 'Mult' and la is not None and lb_ is not None and la >= 0 and lb_ >= 0:
            val = la * lb_
        elif op == 'Sub' and la is not None and b[0] == 'const':
            val = la - b[1]
        elif op == 'BitAnd' and (a[0] == 'const' or b[0] == 'const'):
            val = 0
        elif op == 'RShift':
            val = 0 if la is not None and la >= 0 else None
    elif k == 'pure' and t[1] == 'len':
        val = 1 if t in facts['ne0'] else 0
    elif k in ('item', 'unpack') and isinstance(t[1], tuple) and t[1] and t[1][0] == 'call':
        name = str(t[1][1])
        args = t[1][2]
        if 'unpack' in name and args and args[0][0] == 'const':
            fmt = args[0][1]
            idx = t[2][1] if k == 'item' and t[2][0] == 'const' else (t[2] if k == 'unpack' else None)
            try:
                if 'cbitstruct' in name:
                    f = [x for x in cbit_fields(fmt) if x[2] != 'p'][idx]
                    val = 0 if f[2] in ('u', 'b') else None
                else:
                    f = struct_fields(fmt)[idx]
                    val = 0 if not f[2] else None
            except Exception:
                val = None
    elif k == 'item' and t[1] in facts.get('bytes', ()) and not (isinstance(t[2], tuple) and t[2] and
                                                                  t[2][0] == 'slice'):
        val = 0  # one element of a bytes object is an int in 0..255
    elif k == 'param' and param_values and t[2] in param_values:
        val = min(param_values[t[2]])
    elif k == 'tuple':
        val = None
    if t in facts['ne0'] and val is not None and val == 0:
        val = 1
    if base is not None and (val is None or base > val):
        val = base
    return val


def loop_conds(p: Path, loop_node):
    """(first evaluation, second evaluation) of a while-loop's test on a path that went round once."""
    evs = [e for e in p.events if e.kind == 'cond' and _inside(e.node, loop_node.test)]
    enter = [e for e in p.events if e.kind == 'loop' and e.node is loop_node and e.data.get('phase') == 'enter']
    back = [e for e in p.events if e.kind == 'loop' and e.node is loop_node and e.data.get('phase') == 'back']
    if not enter or not back:
        return None
    first = [e for e in evs if e.seq < enter[0].seq]
    second = [e for e in evs if e.seq > back[0].seq]
    if not first or not second:
        return None
    return first[-1], second[0], enter[0], back[0]


def _inside(node, root):
    if node is root:
        return True
    for n in ast.walk(root):
        if n is node:
            return True
    return False


def bytes_params(func):
    """terms of the parameters of `func` annotated as a bytes-like type"""
    import ast as _ast
    out = set()
    a = func.node.args
    for x in a.posonlyargs + a.args + a.kwonlyargs:
        if x.annotation is not None and _ast.unparse(x.annotation).split('.')[-1] in (
                'bytes', 'bytearray', 'memoryview'):
            out.add(('param', func.qualname, x.arg))
    return out


def lin_lower_bound(lin, atoms, facts, param_values=None) -> Optional[int]:
    """Lower bound of a linear form whose atoms are opaque terms (all coefficients must be non-negative)."""
    total = lin.const
    for a, c in lin.coef.items():
        if c < 0:
            return None
        lb = lower_bound(atoms.terms[a], facts, param_values)
        if lb is None:
            return None
        total += c * lb
    return total


def while_progress(ctx, func, cls, loop_node, param_values=None, **opts):
    """For every enumerated path that goes round `loop_node` once: the distance to the loop exit shrinks by >= 1.
    Returns (n_paths, problem or None)."""
    from ..layout import Atoms, to_lin
    paths = ctx.paths(func, cls, **opts)
    n = 0
    for p in paths:
        lc = loop_conds(p, loop_node)
        if lc is None:
            continue
        first, second, enter, back = lc
        k1, k2 = strip_epoch(first.data['key']), strip_epoch(second.data['key'])
        if k1[0] != 'lt' or k2[0] != 'lt':
            raise AnalysisError('loop test at %s:%s is not an ordering comparison (%s)' % (
                func.file, loop_node.lineno, fmt_term(k1)))
        n += 1
        atoms = Atoms()
        a1, b1, a2, b2 = (to_lin(x, atoms) for x in (k1[1], k1[2], k2[1], k2[2]))
        cont_when = first.data['value']  # the loop body ran, so the first evaluation continued with this key value
        if cont_when:
            # continue while a < b : measure b - a
            shrink = (b1 - a1) - (b2 - a2)
        else:
            # continue while not (a < b) : measure a - b
            shrink = (a1 - b1) - (a2 - b2)
        facts = path_facts(p, back.seq)
        facts['bytes'] = bytes_params(func)
        lb = lin_lower_bound(shrink, atoms, facts, param_values)
        if lb is None or lb < 1:
            desc = {a: fmt_term(t)[:70] for a, t in atoms.terms.items() if a in shrink.coef}
            return n, 'an iteration can leave the loop measure unchanged: it shrinks by %r with %s (lower bound %s) - ' \
                      'the loop does not terminate on such input' % (shrink, desc, lb)
    return n, None


def while_reads_to_the_end(ctx, func, cls, loop_node, **opts):
    """The loop goes on exactly as long as unread input remains: on every iteration path its test is
    `cursor < len(<the bytes parameter>)` as linear forms (a bound short of the end drops a trailing item, one beyond
    reads past it).  Returns (n_paths, problem or None)."""
    from ..layout import Atoms, to_lin
    bps = bytes_params(func)
    if not bps:
        raise AnalysisError('%s has no parameter annotated as bytes' % func.short)
    paths = ctx.paths(func, cls, **opts)
    n = 0
    for p in paths:
        lc = loop_conds(p, loop_node)
        if lc is None:
            continue
        first, second, enter, back = lc
        k1 = strip_epoch(first.data['key'])
        if k1[0] not in ('lt', 'le'):
            raise AnalysisError('loop test at %s:%s is not an ordering comparison (%s)' % (
                func.file, loop_node.lineno, fmt_term(k1)))
        n += 1
        atoms = Atoms()
        a, b = to_lin(k1[1], atoms), to_lin(k1[2], atoms)
        cont_when = first.data['value']
        # normalise to: continue while cursor < end
        if cont_when and k1[0] == 'lt':
            cursor, end = a, b
        elif cont_when and k1[0] == 'le':
            cursor, end = a, b + Lin.k(1)
        elif not cont_when and k1[0] == 'lt':
            cursor, end = b, a + Lin.k(1)       # not (a < b)  <=>  b <= a  <=>  b < a + 1
        else:
            cursor, end = b, a                   # not (a <= b) <=>  b < a
        len_atoms = [x for x, t in atoms.terms.items() if t[0] == 'pure' and t[1] == 'len' and
                     len(t[3]) == 1 and strip_epoch(t[3][0]) in bps]
        want = None
        for x in len_atoms:
            want = Lin.atom(x)
        if want is None or end != want:
            return n, 'the loop goes on while the cursor is below %r, not below the length of the input: %s' % (
                end, 'input that ends in a short last item is not read to the end' if want is not None else
                'the bound does not mention the length of the input')
        if any(c != 1 for c in cursor.coef.values()) or cursor.const != 0 and not cursor.coef:
            return n, 'the loop test compares %r, not the cursor, with the length of the input' % cursor
    return n, None
