"""C06 Request-n flow control: emission never exceeds granted credit."""
import ast

from .. import AnalysisError
from ..effects import strip_epoch, signal_kind, is_enq_send, is_enq_lease
from ..index import walk_local, ClassInfo
from ..interp import fmt_term, const, AVal
from . import COMMON_ASSUMPTIONS
from .handlers import model, H_TERM, FRAME_TERM
from .c07 import init_bools

EXPLANATION = (
    'Decides: (a) credit is forwarded unmodified - provenance of the amount at every hop: initial request-n / '
    'REQUEST_N of a received frame -> Subscription.request() in the responder and channel handlers; '
    'Subscription.request(n) of a requester -> the REQUEST_N frame; initial_request_n(n) -> the request frame; the '
    'adapters\' back-pressure publisher -> the feedback subject; the collector / Rx subscribers re-request exactly '
    'their configured limit; (b) emission is bounded by the credit that triggered it: in the generator publishers '
    'and in both Rx feeders every produced element lies inside a loop over async_range(n) whose n is an unmodified '
    'value taken once from the credit queue, with at most one production per iteration, and async_range(count) '
    'iterates range(count); (c) nothing produces outside the credited loop: the subscriber of a generator stream is '
    'fed only by the task that drains the credited queue, and that queue is filled only inside the credited loop (plus '
    'the single completion marker); the credit frames cannot overtake the request they belong to (shared with C05.a). '
    'Not decided: liveness (every element eventually delivered) and frame counts at a moment in time.')
EXPLANATION_ADDED = ("(d) credit is really forwarded: REQUEST_N / initial request-n reach the producer's request() and request(n) puts a REQUEST_N frame (handler reactions); (e) the hand-offs of the library's stream source exist and lose nothing (request -> credit queue and feeder, batch -> delivery queue, delivery -> subscriber, completion marker); the awaitable adapter passes limit_rate as initial request-n and binds it (positionally or by keyword, resolved against the constructor) to the collector field that on_next uses as refill size, leaving the cut-off field None; subscribers count every element once, compare the count with the limit they were built with and restart it with every batch; REQUEST_N is never held by the lease gate (C14.f) nor inserted at the head (C05.b).")
EXPLANATION = EXPLANATION.replace(' Not decided', ' ' + EXPLANATION_ADDED + ' Not decided', 1) \
    if ' Not decided' in EXPLANATION else EXPLANATION + ' ' + EXPLANATION_ADDED
ASSUMPTIONS = COMMON_ASSUMPTIONS


def rule_a(ctx):
    rep = ctx.report
    m = model(ctx)
    # 1. received credit -> Subscription.request
    wanted = {'RequestStreamFrame': 'initial_request_n', 'RequestChannelFrame': 'initial_request_n',
              'RequestNFrame': 'request_n'}
    n = 0
    for h in m.handlers:
        inter, role = m.role(h)
        pre0 = init_bools(ctx, m, h)
        for en in m.entries(h):
            if en.kind != 'frame' or en.frame_cls.name not in wanted:
                continue
            field = wanted[en.frame_cls.name]
            reqs = []
            for p in m.run(en, pre0):
                for e in p.events:
                    if e.kind == 'call' and e.data.get('name') == 'request' and e.data.get('how') in ('app', 'unknown'):
                        reqs.append((p, e))
            recognised = False
            for k in h.mro():
                fr = getattr(k, 'methods', {}).get('frame_received')
                if fr is not None:
                    for x in walk_local(fr.node):
                        if isinstance(x, ast.Call) and isinstance(x.func, ast.Name) and x.func.id == 'isinstance' and \
                                len(x.args) == 2 and en.frame_cls.name in ast.unparse(x.args[1]).replace('(', ' ').replace(
                                    ')', ' ').replace(',', ' ').split():
                            recognised = True
            if not reqs and not recognised:
                continue
            if not reqs:
                # the handler recognises the frame and no path hands its credit on while the frame is being handled:
                # dropped, or deferred to a later loop turn - by then a CANCEL of the same read has been handled and
                # the credit starts a producer nobody listens to
                n += 1
                rep.bad('C06.a', '%s / credit of the frame forwarded to Subscription.request' % en.name, en.func,
                        'no path calls Subscription.request(frame.%s) while the frame is handled (the credit is '
                        'dropped or handed over later, e.g. through call_soon)' % field)
                continue
            n += 1
            # every credit counts: a normal path through the entry that does not reach request() is one on which
            # there is no producer to ask (the subscription was tested and is None) - not one chosen by the value
            with_req = {id(p) for p, _ in reqs}
            dropped = None
            for p in m.run(en, pre0):
                if p.outcome != 'return' or id(p) in with_req:
                    continue
                no_producer = any(c.kind == 'cond' and c.data['key'][0] == 'isnone' and c.data['value'] is True and
                                  ('subscription' in repr(c.data['key'][1]) or 'subscriber' in repr(c.data['key'][1]) or
                                   'publisher' in repr(c.data['key'][1]))
                                  for c in p.events)
                if not no_producer:
                    tests = [c for c in p.events if c.kind == 'cond' and field in repr(c.data['key'])]
                    dropped = (p, tests[-1] if tests else None)
            if dropped is not None:
                rep.bad('C06.a', '%s / credit of the frame forwarded to Subscription.request' % en.name, en.func,
                        'a path through the entry hands no credit to the producer%s: every REQUEST_N counts, whatever '
                        'its value (1 .. 2^31-1)' % (' (after a test of frame.%s at line %s)' % (field, dropped[1].line)
                                                     if dropped[1] is not None else ''))
                continue
            bad = [e for p, e in reqs if not e.data.get('args') or
                   strip_epoch(e.data['args'][0].term) != ('attr', FRAME_TERM, field)]
            rep.add('C06.a', '%s / credit of the frame forwarded to Subscription.request' % en.name, en.func, not bad,
                    'request(frame.%s) on all %d call paths' % (field, len(reqs)) if not bad else
                    'the producer is asked for %s instead of frame.%s' % (
                        fmt_term(bad[0].data['args'][0].term) if bad[0].data.get('args') else 'nothing', field))
    rep.require('C06.a', 'frame entries that grant credit to a producer', n, 5)
    # 2. Subscription.request(n) of a requester / channel side -> REQUEST_N(n)
    n = 0
    for h in m.handlers:
        for en in m.entries(h):
            if en.kind != 'method' or en.func.name != 'request':
                continue
            nparam = ('param', en.func.qualname, en.func.params()[1])
            ok = True
            seen = 0
            for p in m.run(en, None):
                for cname, complete, ev in m.emitted(p):
                    if cname != 'RequestNFrame':
                        continue
                    seen += 1
                    frame = ev.data['args'][0].term
                    val = None
                    for s in p.events:
                        if s.kind == 'store' and s.seq < ev.seq and s.data['target'][0] == 'attr' and \
                                s.data['target'][1] == frame and s.data['target'][2] == 'request_n':
                            val = strip_epoch(s.data['value'].term)
                    if val != nparam:
                        ok = False
            if seen:
                n += 1
                rep.add('C06.a', '%s / REQUEST_N carries the requested amount' % en.name, en.func, ok,
                        'request(n) enqueues REQUEST_N with request_n = n' if ok else
                        'the REQUEST_N frame does not carry the amount passed to request()')
    rep.require('C06.a', 'request() methods that emit REQUEST_N', n, 2)
    # 3. initial_request_n(n) -> request frame
    n = 0
    for h in m.handlers:
        if m.role(h)[1] != 'requester':
            continue
        for en in m.entries(h):
            if en.kind != 'method' or en.func.name != 'subscribe':
                continue
            ok = True
            seen = 0
            for p in m.run(en, None):
                for cname, complete, ev in m.emitted(p):
                    if cname not in ('RequestStreamFrame', 'RequestChannelFrame'):
                        continue
                    seen += 1
                    frame = ev.data['args'][0].term
                    val = None
                    for s in p.events:
                        if s.kind == 'store' and s.seq < ev.seq and s.data['target'][0] == 'attr' and \
                                s.data['target'][1] == frame and s.data['target'][2] == 'initial_request_n':
                            val = strip_epoch(s.data['value'].term)
                    if not (val and val[0] == 'attr' and val[1] == H_TERM and 'initial_request_n' in val[2]):
                        ok = False
            if seen:
                n += 1
                rep.add('C06.a', '%s / request frame carries the configured initial request-n' % en.name, en.func, ok,
                        'initial_request_n of the frame is the handler\'s configured value' if ok else
                        'the request frame does not carry the configured initial request-n')
    rep.require('C06.a', 'requester subscribe() methods', n, 2)
    # 4. adapters: feedback subject receives exactly n (both Rx packages)
    for pkg in ('reactivex', 'rx_support'):
        c = ctx.repo.cls('rsocket.%s.back_pressure_publisher:InternalBackPressurePublisher' % pkg)
        f = c.lookup('request')
        ok = True
        seen = 0
        for p in ctx.paths(f, c):
            for e in p.events:
                if e.kind == 'call' and e.data.get('name') == 'on_next':
                    seen += 1
                    if strip_epoch(e.data['args'][0].term) != ('param', f.qualname, f.params()[1]):
                        ok = False
        rep.add('C06.a', '%s InternalBackPressurePublisher.request / exact amount to the feedback subject' % pkg, f,
                ok and seen > 0, 'feedback.on_next(n)' if ok and seen else 'the feedback subject does not receive n')
    # 5. subscribers re-request exactly their limit
    subs = [('rsocket.awaitable.collector_subscriber:CollectorSubscriber', '_limit_rate'),
            ('rsocket.reactivex.from_rsocket_publisher:RxSubscriberFromObserver', 'limit_rate'),
            ('rsocket.rx_support.from_rsocket_publisher:RxSubscriberFromObserver', 'limit_rate')]
    for spec, attr in subs:
        c = ctx.repo.cls(spec)
        seen = 0
        ok = True
        for name in ('on_next', 'on_subscribe'):
            f = c.lookup(name)
            if f is None:
                continue
            seen_here = 0
            for p in ctx.paths(f, c, args={'is_complete': const(False)} if 'is_complete' in f.params() else None):
                full = [x for x in p.events if x.kind == 'cond' and attr in repr(x.data['key']) and
                        x.data['key'][0] == 'eq' and x.data['value']]
                asked = [e for e in p.events if e.kind == 'call' and e.data.get('name') == 'request' and
                         e.data.get('how') in ('app', 'unknown')]
                if name == 'on_next' and full and not asked and p.outcome == 'return':
                    ok = False  # a full batch was consumed and nothing is requested: the stream stalls
                seen_here += len(asked)
                for e in p.events:
                    if e.kind == 'call' and e.data.get('name') == 'request' and e.data.get('how') in ('app', 'unknown'):
                        seen += 1
                        if strip_epoch(e.data['args'][0].term) != ('attr', ('self',), attr):
                            ok = False
                        # re-request only when a full batch was consumed
                        if name == 'on_next':
                            gate = [x for x in p.events if x.kind == 'cond' and x.seq < e.seq and
                                    attr in repr(x.data['key']) and x.data['key'][0] == 'eq' and x.data['value']]
                            if not gate:
                                ok = False
            if name == 'on_next' and seen_here == 0:
                ok = False  # no replenishment at all in on_next
            if name == 'on_subscribe' and seen_here and 'CollectorSubscriber' in spec:
                ok = False  # the collector's first batch is the request frame's initial request-n: asking again at
                # on_subscribe grants the responder more than the application did
        rep.add('C06.a', '%s / re-requests exactly its limit after a full batch' % spec.split(':')[1] + ' (%s)' %
                spec.split('.')[1], c, ok and seen > 0,
                'subscription.request(limit) when the received count reaches the limit' if ok and seen else
                'the subscriber does not re-request exactly its configured limit per consumed batch')
    for pkg in ('reactivex', 'rx_support'):
        mod = ctx.repo.module('rsocket.%s.from_rsocket_publisher' % pkg)
        f = mod.functions['_trigger_next_request_n'][-1]
        seen = 0
        ok = True
        for p in ctx.paths(f, None):
            evs = p.events
            for e in evs:
                if e.kind == 'call' and e.data.get('name') == 'request':
                    seen += 1
                    if strip_epoch(e.data['args'][0].term) != ('param', f.qualname, 'limit_rate'):
                        ok = False
                    # one request per signal: since the previous request (or the start) the task has waited for the
                    # subscriber's event, and it clears the event before it waits again
                    prev = [x.seq for x in evs if x.kind == 'call' and x.data.get('name') == 'request' and x.seq < e.seq]
                    lo = max(prev) if prev else -1
                    waited = [x for x in evs if x.kind == 'call' and x.data.get('name') == 'wait' and
                              lo < x.seq < e.seq]
                    if not waited:
                        ok = False
            # ... within the iteration: wait, then (in either order) request and clear, then back to the wait
            backs = [x for x in evs if x.kind == 'loop' and x.data.get('phase') in ('back', 'cut')]
            waits = [x for x in evs if x.kind == 'call' and x.data.get('name') == 'wait']
            if backs and waits:
                if not [x for x in evs if x.kind == 'call' and x.data.get('name') == 'clear' and
                        waits[0].seq < x.seq < backs[0].seq]:
                    ok = False  # the event stays set: the next iteration requests again without a new signal
            reqs = [x for x in evs if x.kind == 'call' and x.data.get('name') == 'request']
            for a, b in zip(reqs, reqs[1:]):
                if not [x for x in evs if x.kind == 'call' and x.data.get('name') == 'clear' and a.seq < x.seq < b.seq]:
                    ok = False
        rep.add('C06.a', '%s _trigger_next_request_n / requests the limit' % pkg, f, ok and seen > 0,
                'request(limit_rate)' if ok and seen else 'does not request exactly limit_rate')
        # ... and it is woken exactly when a full batch of that size has been consumed: the subscriber's trigger
        # compares its received count with the limit it was constructed with (stored unmodified)
        c = mod.classes['RxSubscriber'][-1]
        init = c.methods['__init__']
        lim_attr = None
        for p in ctx.paths(init, c):
            for e in p.events:
                if e.kind == 'store' and e.data['target'][0] == 'attr' and \
                        strip_epoch(e.data['value'].term) == ('param', init.qualname, 'limit_rate'):
                    lim_attr = e.data['target'][2]
        on = c.methods['on_next']
        ok = lim_attr is not None
        why = 'the subscriber does not keep the limit it was constructed with' if not ok else ''
        n_set = 0
        for p in ctx.paths(on, c, args={'is_complete': const(False)}):
            sets = [e for e in p.events if e.kind == 'call' and e.data.get('name') == 'set' and
                    e.data.get('recv') is not None and 'get_next_n' in repr(e.data['recv'].term)]
            for e in sets:
                n_set += 1
                gate = [x for x in p.events if x.kind == 'cond' and x.seq < e.seq and x.data['key'][0] == 'eq' and
                        x.data['value'] is True]
                good = False
                for x in gate:
                    sides = [strip_epoch(t) for t in x.data['key'][1:3]]
                    if ('attr', ('self',), lim_attr) in sides and any(
                            t[0] in ('attr', 'op') and '_received' in repr(t) for t in sides):
                        good = True
                if not good:
                    ok = False
                    why = ('the next REQUEST_N is triggered when the received count equals something other than the '
                           'limit (%s): credit outstanding at the peer can exceed the request limit' % (
                               [fmt_term(x.data['key'])[:80] for x in gate][-1:] or 'no test'))
                reset = [s_ for s_ in p.events if s_.kind == 'store' and s_.data['target'][0] == 'attr' and
                         '_received' in s_.data['target'][2] and s_.data['value'].is_const() and
                         s_.data['value'].const == 0]
                if not reset:
                    ok, why = False, 'the received count is not reset when the next batch is requested'
        rep.add('C06.a', '%s RxSubscriber.on_next / next batch triggered after exactly limit_rate elements' % pkg, on,
                ok and n_set > 0, why or 'get_next_n.set() when received == self.%s, count reset' % lim_attr)
    # 5b. batch counting: every element counts once, the count is what is compared with the limit, it restarts at
    # zero with every new batch, and the first batch is requested on subscription
    counted = [('rsocket.awaitable.collector_subscriber:CollectorSubscriber', '_limit_rate', False),
               ('rsocket.reactivex.from_rsocket_publisher:RxSubscriberFromObserver', 'limit_rate', True),
               ('rsocket.rx_support.from_rsocket_publisher:RxSubscriberFromObserver', 'limit_rate', True),
               ('rsocket.reactivex.from_rsocket_publisher:RxSubscriber', 'limit_rate', False),
               ('rsocket.rx_support.from_rsocket_publisher:RxSubscriber', 'limit_rate', False)]
    for spec, attr, requests_on_subscribe in counted:
        c = ctx.repo.cls(spec)
        on = c.lookup('on_next')
        init = c.lookup('__init__')
        ok = True
        why = ''
        n_full = 0
        counter = None
        for p in ctx.paths(on, c, args={'is_complete': const(False)}):
            if p.outcome != 'return':
                continue
            incs = [e for e in p.events if e.kind == 'store' and e.data['target'][0] == 'attr' and
                    e.data['target'][1] == ('self',) and e.data.get('aug') == 'Add']
            gates = [x for x in p.events if x.kind == 'cond' and x.data['key'][0] == 'eq' and
                     ('attr', ('self',), attr) in [strip_epoch(t) for t in x.data['key'][1:3]]]
            if not gates:
                continue
            other = [strip_epoch(t) for t in gates[-1].data['key'][1:3] if strip_epoch(t) != ('attr', ('self',), attr)]
            cands = [e for e in incs if other and e.data['target'][2] in repr(other[0])]
            if len(cands) != 1 or strip_epoch(cands[0].data['value'].term)[3:4] != (('const', 1),) or \
                    cands[0].seq > gates[-1].seq:
                ok, why = False, ('the count compared with the limit is not incremented by exactly 1 for the element '
                                  'just received, before the comparison')
                continue
            counter = cands[0].data['target'][2]
            resets = [e for e in p.events if e.kind == 'store' and e.data['target'][0] == 'attr' and
                      e.data['target'][2] == counter and e.data['value'].is_const() and e.seq > gates[-1].seq]
            if gates[-1].data['value'] is True:
                n_full += 1
                if not resets or resets[-1].data['value'].const != 0:
                    ok, why = False, 'the count is not reset to 0 when a full batch has been received'
            elif resets:
                ok, why = False, 'the count is reset although the batch is not complete'
        if counter is None:
            ok, why = False, 'no received-count is compared with the limit'
        else:
            st = [v for f_, s_, v in ctx.repo.attr_assignments(c, counter) if f_.name == '__init__']
            if not st or not (isinstance(st[0], ast.Constant) and st[0].value == 0):
                ok, why = False, 'the received count does not start at 0'
        if requests_on_subscribe:
            osub = c.lookup('on_subscribe')
            good = False
            for p in ctx.paths(osub, c):
                reqs = [e for e in p.events if e.kind == 'call' and e.data.get('name') == 'request']
                st = [e for e in p.events if e.kind == 'store' and e.data['target'][0] == 'attr' and
                      e.data['target'][2] == 'subscription']
                good = p.outcome == 'return' and len(reqs) == 1 and len(st) == 1 and \
                    strip_epoch(reqs[0].data['args'][0].term) == ('attr', ('self',), attr)
            if not good:
                ok, why = False, 'on_subscribe does not keep the subscription and request the first batch of the limit'
        rep.add('C06.a', '%s (%s) / batch counting' % (c.name, spec.split('.')[1]), on, ok and n_full > 0,
                why or 'count += 1 per element, compared with the limit, reset to 0 with every new batch')
    # 6. clients: the same request_limit configures the initial request-n and the re-request size
    for spec in ('rsocket.reactivex.reactivex_client:ReactiveXClient', 'rsocket.rx_support.rx_rsocket:RxRSocket'):
        c = ctx.repo.cls(spec)
        for name in ('request_stream', 'request_channel'):
            f = c.lookup(name)
            limit = 'request_limit'
            ok = limit in f.params()
            init_ok = wrap_ok = False
            for node in walk_local(f.node):
                if isinstance(node, ast.Call) and isinstance(node.func, ast.Attribute) and \
                        node.func.attr == 'initial_request_n' and len(node.args) == 1 and \
                        isinstance(node.args[0], ast.Name) and node.args[0].id == limit:
                    init_ok = True
                if isinstance(node, ast.Call) and isinstance(node.func, ast.Name) and \
                        node.func.id == 'from_rsocket_publisher' and len(node.args) == 2 and \
                        isinstance(node.args[1], ast.Name) and node.args[1].id == limit:
                    wrap_ok = True
            ok = ok and init_ok and wrap_ok
            rep.add('C06.a', '%s.%s / request_limit used for both initial and subsequent credit' % (c.name, name), f,
                    ok, 'initial_request_n(request_limit) and from_rsocket_publisher(..., request_limit)' if ok else
                    'request_limit is not passed unmodified to both places')


def _credited_loops(ctx, f, cls):
    """For an async function with `async for i in async_range(X)`: (loop node, X expr)"""
    out = []
    for n in walk_local(f.node):
        if isinstance(n, ast.AsyncFor) and isinstance(n.iter, ast.Call) and 'async_range' in ast.unparse(n.iter.func):
            out.append(n)
        # the same count with the built-in range (no suspension per element: C12.j looks at that, not this rule)
        if isinstance(n, ast.For) and isinstance(n.iter, ast.Call) and isinstance(n.iter.func, ast.Name) and \
                n.iter.func.id == 'range' and len(n.iter.args) == 1:
            out.append(n)
    return out


CREDITED_SUBJECTS = [
    ('rsocket.streams.stream_from_generator:StreamFromGenerator._generate_next_n',
     'rsocket.streams.stream_from_generator:StreamFromGenerator', 'yield'),
    ('rsocket.streams.stream_from_async_generator:StreamFromAsyncGenerator._generate_next_n',
     'rsocket.streams.stream_from_async_generator:StreamFromAsyncGenerator', 'yield'),
] + [('rsocket.%s.back_pressure_publisher:%s.<locals>.on_subscribe.<locals>._aio_next' % (pkg, outer), None, 'on_next')
     for pkg in ('reactivex', 'rx_support')
     for outer in ('observable_from_async_generator', 'from_async_event_iterator')]


def rule_credit_loops_yield_the_loop(ctx, rule='C12.j'):
    """The peer chooses n (up to 2^31-1) and the library produces n elements in a loop: every turn of such a loop
    must give the event loop a chance to run - `async for ... in async_range(n)` (which sleeps 0 per element) or an
    await in the body - otherwise one REQUEST_N against a long synchronous generator keeps receiver, sender and
    keepalives from running until the generator is exhausted: other streams are not served, CANCEL is not seen."""
    rep = ctx.report
    ar = ctx.repo.func('rsocket.async_helpers:async_range')
    ar_loop = [n for n in walk_local(ar.node) if isinstance(n, ast.For)]
    ar_yields = bool(ar_loop) and any(isinstance(x, ast.Await) for st in ar_loop[0].body for x in ast.walk(st))
    rep.add(rule, 'async_range / suspends once per element', ar, ar_yields,
            'await asyncio.sleep(0) inside the loop' if ar_yields else
            'async_range no longer awaits inside its loop: a credited loop over it monopolises the event loop')
    n = 0
    for fspec, cspec, how in CREDITED_SUBJECTS:
        f = ctx.repo.func(fspec)
        cls = ctx.repo.cls(cspec) if cspec else None
        label = f.short.replace('.<locals>', '') + (' (%s)' % fspec.split('.')[1] if cspec is None else '')
        for loop in _credited_loops(ctx, f, cls):
            n += 1
            over_async_range = isinstance(loop, ast.AsyncFor)
            awaits_in_body = any(isinstance(x, (ast.Await, ast.AsyncFor, ast.AsyncWith))
                                 for st in loop.body for x in ast.walk(st))
            # an await that every iteration passes: directly in the body, not only under a condition
            direct = any(isinstance(x, ast.Await) for st in loop.body
                         if isinstance(st, (ast.Expr, ast.Assign, ast.AugAssign, ast.Try)) for x in ast.walk(st))
            ok = (over_async_range and ar_yields) or direct
            rep.add(rule, '%s / the credited loop lets other tasks run' % label, (f.file, loop.lineno), ok,
                    'iterates async_range(n), which suspends per element' if over_async_range and ok else
                    'awaits in every iteration' if ok else
                    'a loop of up to n = 2^31-1 turns (the peer chooses n) without a suspension point%s: the event '
                    'loop is blocked until the generator is exhausted' % (
                        ' on every turn' if awaits_in_body else ''))
    rep.require(rule, 'credited production loops', n, 6)


def rule_b(ctx):
    rep = ctx.report
    # async_range(count) iterates range(count)
    ar = ctx.repo.func('rsocket.async_helpers:async_range')
    loops = [n for n in walk_local(ar.node) if isinstance(n, ast.For)]
    ok = len(loops) == 1 and ast.unparse(loops[0].iter) == 'range(%s)' % ar.params()[0] and \
        len([n for n in walk_local(ar.node) if isinstance(n, ast.Yield)]) == 1
    rep.add('C06.b', 'async_range / yields exactly count times', ar, ok,
            'for i in range(count): yield i' if ok else 'async_range no longer iterates exactly range(count)')
    subjects = list(CREDITED_SUBJECTS)
    for fspec, cspec, how in subjects:
        f = ctx.repo.func(fspec)
        cls = ctx.repo.cls(cspec) if cspec else None
        loops = _credited_loops(ctx, f, cls)
        label = f.short.replace('.<locals>', '') + (' (%s)' % fspec.split('.')[1] if cspec is None else '')
        if len(loops) != 1:
            rep.bad('C06.b', '%s / production inside a credited loop' % label, f,
                    'expected one loop over async_range(n) / range(n), found %d' % len(loops))
            continue
        loop = loops[0]
        arg = loop.iter.args[0] if loop.iter.args else None
        # the bound is an unmodified name: a parameter, or a local assigned once from queue.get()
        okb = isinstance(arg, ast.Name)
        src = None
        if okb:
            if arg.id in f.params():
                src = 'parameter %s' % arg.id
            else:
                assigns = [n for n in walk_local(f.node) if isinstance(n, ast.Assign) and
                           any(isinstance(t, ast.Name) and t.id == arg.id for t in n.targets)]
                if len(assigns) == 1 and isinstance(assigns[0].value, ast.Await) and \
                        ast.unparse(assigns[0].value.value).endswith('.get()'):
                    src = 'one credit taken from %s' % ast.unparse(assigns[0].value.value)
                else:
                    okb = False
        if not okb:
            rep.bad('C06.b', '%s / production inside a credited loop' % label, (f.file, loop.lineno),
                    'the loop bound %s is not an unmodified credit (a parameter or one value from the credit queue): '
                    'more elements than were granted can be produced' % (ast.unparse(arg) if arg is not None else '?'))
            continue
        # every production site is inside the loop, at most one per iteration path
        prods_in = []
        prods_out = []
        for n in walk_local(f.node):
            is_prod = (how == 'yield' and isinstance(n, ast.Yield)) or (
                how == 'on_next' and isinstance(n, ast.Call) and isinstance(n.func, ast.Attribute) and
                n.func.attr == 'on_next' and 'observer' in ast.unparse(n.func.value))
            if is_prod:
                inside = any(x is n for x in ast.walk(loop))
                (prods_in if inside else prods_out).append(n)
        if prods_out or not prods_in:
            rep.bad('C06.b', '%s / production inside a credited loop' % label,
                    (f.file, (prods_out[0].lineno if prods_out else f.line)),
                    'an element is produced outside the loop that counts the credit' if prods_out else
                    'no element is produced inside the credited loop')
            continue
        # one production per iteration: enumerate the loop body paths
        paths = ctx.paths(f, cls, inline_depth=1)
        worst = 0
        for p in paths:
            enters = [e for e in p.events if e.kind == 'loop' and e.node is loop and e.data.get('phase') == 'enter']
            if not enters:
                continue
            ends = [e for e in p.events if e.kind == 'loop' and e.node is loop and e.data.get('phase') in (
                'back', 'break') and e.seq > enters[0].seq]
            end_seq = ends[0].seq if ends else 10 ** 9
            cnt = 0
            for e in p.events:
                if enters[0].seq < e.seq < end_seq:
                    if how == 'yield' and e.kind == 'yield' and e.node in prods_in:
                        cnt += 1
                    if how == 'on_next' and e.kind == 'call' and e.node in prods_in:
                        cnt += 1
            worst = max(worst, cnt)
        ok = worst <= 1
        rep.add('C06.b', '%s / production inside a credited loop' % label, (f.file, loop.lineno), ok,
                'bound: %s; at most one element per iteration' % src if ok else
                'an iteration of the credited loop can produce %d elements for one unit of credit' % worst)
    # the generator publisher passes each credit to the generator loop unmodified and once
    for cspec in ('rsocket.streams.stream_from_generator:StreamFromGenerator',):
        c = ctx.repo.cls(cspec)
        q = c.lookup('queue_next_n')
        calls = [n for n in walk_local(q.node) if isinstance(n, ast.Call) and isinstance(n.func, ast.Attribute) and
                 n.func.attr == '_generate_next_n']
        gets = [n for n in walk_local(q.node) if isinstance(n, ast.Assign) and isinstance(n.value, ast.Await) and
                ast.unparse(n.value.value).endswith('_request_n_queue.get()')]
        ok = len(calls) == 1 and len(gets) == 1 and isinstance(calls[0].args[0], ast.Name) and \
            calls[0].args[0].id == gets[0].targets[0].id
        rep.add('C06.b', 'StreamFromGenerator.queue_next_n / each credit drives one bounded generation', q, ok,
                'n = await credit_queue.get(); _generate_next_n(n)' if ok else
                'the amount passed to _generate_next_n is not one unmodified credit from the queue')
        rq = c.lookup('request')
        puts = [n for n in walk_local(rq.node) if isinstance(n, ast.Call) and isinstance(n.func, ast.Attribute) and
                n.func.attr == 'put_nowait']
        ok = len(puts) == 1 and ast.unparse(puts[0].args[0]) == rq.params()[1]
        rep.add('C06.b', 'StreamFromGenerator.request / credit queued unmodified, once', rq, ok,
                'request(n) puts n into the credit queue exactly once' if ok else
                'request(n) does not queue exactly n once')


def rule_c(ctx):
    rep = ctx.report
    c = ctx.repo.cls('rsocket.streams.stream_from_generator:StreamFromGenerator')
    # who signals the subscriber with elements
    sites = []
    for k in [c] + ctx.repo.subclasses(c):
        for f in k.methods.values():
            for n in walk_local(f.node):
                if isinstance(n, ast.Call) and isinstance(n.func, ast.Attribute) and n.func.attr in (
                        'on_next', 'on_complete') and '_subscriber' in ast.unparse(n.func.value):
                    sites.append((f, n))
    holders = {f.name for f, n in sites}
    ok = holders == {'_send_to_subscriber'}
    rep.add('C06.c', 'StreamFromGenerator / elements signalled from one place', c, ok,
            'only _send_to_subscriber calls subscriber.on_next/on_complete' if ok else
            'the subscriber is also signalled from %s' % sorted(holders - {'_send_to_subscriber'}))
    callers = set()
    for k in [c] + ctx.repo.subclasses(c):
        for f in k.methods.values():
            for n in walk_local(f.node):
                if isinstance(n, ast.Call) and isinstance(n.func, ast.Attribute) and \
                        n.func.attr == '_send_to_subscriber':
                    callers.add(f.name)
    ok = callers == {'feed_subscriber'}
    rep.add('C06.c', 'StreamFromGenerator._send_to_subscriber / called by the queue drainer only', c, ok,
            'only feed_subscriber, which drains the credited queue, delivers elements' if ok else
            'elements are also delivered from %s' % sorted(callers - {'feed_subscriber'}))
    # the delivery queue is filled only inside the credited loop, plus the single completion marker
    q = c.lookup('queue_next_n')
    puts = [n for n in walk_local(q.node) if isinstance(n, ast.Call) and isinstance(n.func, ast.Attribute) and
            n.func.attr == 'put_nowait' and '_queue' in ast.unparse(n.func.value) and
            '_request_n_queue' not in ast.unparse(n.func.value)]
    loops = [n for n in walk_local(q.node) if isinstance(n, ast.AsyncFor)]
    inside = [p for p in puts if any(x is p for l in loops for x in ast.walk(l))]
    outside = [p for p in puts if p not in inside]
    marker_ok = all('True' in ast.unparse(p.args[0]) and 'Payload()' in ast.unparse(p.args[0]) for p in outside)
    other = []
    for k in [c] + ctx.repo.subclasses(c):
        for f in k.methods.values():
            if f is q:
                continue
            for n in walk_local(f.node):
                if isinstance(n, ast.Call) and isinstance(n.func, ast.Attribute) and n.func.attr in (
                        'put_nowait', 'put') and ast.unparse(n.func.value).endswith('self._queue'):
                    other.append(f.name)
    ok = len(inside) == 1 and marker_ok and not other
    rep.add('C06.c', 'StreamFromGenerator / delivery queue filled by the credited loop only', q, ok,
            'one put per generated element inside the credited loop; outside it only the completion marker' if ok else
            'the delivery queue is also filled %s' % ('from ' + str(other) if other else 'outside the credited loop'))
    # feed_subscriber delivers each dequeued element exactly once
    fs = c.lookup('feed_subscriber')
    ok = True
    n = 0
    for p in ctx.paths(fs, c, inline_depth=1):
        gets = [e for e in p.events if e.kind == 'call' and e.data.get('name') == 'get' and
                '_queue' in repr(e.data['recv'].term)]
        sends = [e for e in p.events if e.kind == 'call' and e.data.get('name') == '_send_to_subscriber']
        if gets:
            n += 1
            if len(sends) > len(gets):
                ok = False
    rep.add('C06.c', 'StreamFromGenerator.feed_subscriber / one delivery per dequeued element', fs, ok and n > 0,
            'each element taken from the queue is delivered once' if ok else
            'an element taken from the queue can be delivered more than once')


def _ctor_fields(new_event):
    """field -> term for the `self.<field> = <parameter>` stores of the constructor, with the parameters bound from
    the construction site (positional, keyword, defaults)."""
    cls = new_event.data['cls']
    init = cls.lookup('__init__')
    if init is None:
        return {}
    a = init.node.args
    names = [x.arg for x in a.args][1:]
    defaults = dict(zip(names[len(names) - len(a.defaults):], a.defaults)) if a.defaults else {}
    binding = {}
    for name, v in zip(names, new_event.data.get('args') or []):
        binding[name] = strip_epoch(v.term)
    for k, v in (new_event.data.get('kwargs') or {}).items():
        binding[k] = strip_epoch(v.term)
    out = {}
    for n in walk_local(init.node):
        if isinstance(n, ast.Assign) and len(n.targets) == 1 and isinstance(n.targets[0], ast.Attribute) and \
                isinstance(n.targets[0].value, ast.Name) and n.targets[0].value.id == 'self' and \
                isinstance(n.value, ast.Name) and n.value.id in names:
            pname = n.value.id
            if pname in binding:
                out[n.targets[0].attr] = binding[pname]
            elif pname in defaults:
                d = defaults[pname]
                if isinstance(d, ast.Constant):
                    out[n.targets[0].attr] = ('const', d.value)
                else:
                    out[n.targets[0].attr] = ('default', ast.unparse(d))
    return out


def _collector_roles(cls):
    """(refill field, cut-off field) of a collecting subscriber, by what on_next does with them: the refill field is
    the argument of subscription.request(), the cut-off field is compared on the way to subscription.cancel()."""
    on_next = cls.lookup('on_next')
    if on_next is None:
        return None, None
    refill = cutoff = None
    init = cls.lookup('__init__')
    pnames = {x.arg for x in init.node.args.args} if init is not None else set()
    param_fields = {n.targets[0].attr for n in (walk_local(init.node) if init is not None else ())
                    if isinstance(n, ast.Assign) and len(n.targets) == 1 and isinstance(n.targets[0], ast.Attribute)
                    and isinstance(n.value, ast.Name) and n.value.id in pnames}
    for n in walk_local(on_next.node):
        if isinstance(n, ast.Call) and isinstance(n.func, ast.Attribute) and n.func.attr == 'request' and n.args and \
                isinstance(n.args[0], ast.Attribute) and ast.unparse(n.args[0].value) == 'self':
            refill = n.args[0].attr
        if isinstance(n, ast.If) and any(isinstance(c, ast.Call) and isinstance(c.func, ast.Attribute) and
                                         c.func.attr == 'cancel' for st in n.body for c in ast.walk(st)):
            for x in ast.walk(n.test):
                if isinstance(x, ast.Compare) and not isinstance(x.ops[0], (ast.Is, ast.IsNot)):
                    for side in [x.left] + x.comparators:
                        if isinstance(side, ast.Attribute) and ast.unparse(side.value) == 'self' and \
                                side.attr in param_fields:
                            cutoff = side.attr
    return refill, cutoff


def rule_g(ctx):
    """The awaitable adapter: the limit_rate the application passes is the initial request-n of the request it issues,
    and the refill size of the collector it subscribes."""
    rep = ctx.report
    c = ctx.repo.cls('rsocket.awaitable.awaitable_rsocket:AwaitableRSocket')
    for meth in ('request_stream', 'request_channel'):
        f = c.methods.get(meth)
        if f is None:
            raise AnalysisError('C06.a: AwaitableRSocket.%s vanished' % meth)
        if 'limit_rate' not in f.params():
            rep.bad('C06.a', 'AwaitableRSocket.%s / limit_rate becomes the initial request-n' % meth, f,
                    'the method has no limit_rate parameter')
            continue
        lim = ('param', f.qualname, 'limit_rate')
        ok = True
        why = ''
        n = 0
        for p in ctx.paths(f, c, inline_depth=1, no_inline={meth, 'initial_request_n', 'subscribe', 'run'}):
            if p.outcome != 'return':
                continue
            n += 1
            reqs = [e for e in p.events if e.kind == 'call' and e.data.get('name') == meth]
            inits = [e for e in p.events if e.kind == 'call' and e.data.get('name') == 'initial_request_n']
            subs = [e for e in p.events if e.kind == 'call' and e.data.get('name') == 'subscribe']
            if len(reqs) != 1 or len(subs) != 1:
                ok, why = False, 'the request is not issued and subscribed exactly once'
                continue
            req_t = strip_epoch(reqs[0].data['value'].term)
            if len(inits) != 1 or [strip_epoch(a.term) for a in inits[0].data['args']] != [lim]:
                ok, why = False, ('the request goes out without .initial_request_n(limit_rate): the peer is granted '
                                  'the default 2^31-1 instead of the application\'s limit')
                continue
            if inits[0].data.get('recv') is None or strip_epoch(inits[0].data['recv'].term) != req_t or \
                    inits[0].seq > subs[0].seq:
                ok, why = False, 'initial_request_n(limit_rate) is not applied to this request before it is subscribed'
            news = [e for e in p.events if e.kind == 'new' and e.data['cls'].name == 'CollectorSubscriber']
            bound = _ctor_fields(news[0]) if len(news) == 1 else {}
            refill, cutoff = _collector_roles(news[0].data['cls']) if len(news) == 1 else (None, None)
            if len(news) != 1 or refill is None or bound.get(refill) != lim:
                ok, why = False, 'the collector\'s refill size (%s) is not the application\'s limit_rate' % refill
            elif cutoff is not None and bound.get(cutoff, ('const', None)) != ('const', None):
                ok, why = False, ('the collector is created with %s as its element cut-off (%s): it cancels the '
                                  'stream after that many elements' % (fmt_term(bound[cutoff]), cutoff))
            elif [strip_epoch(a.term) for a in subs[0].data['args']] != [news[0].data['value'].term]:
                ok, why = False, 'what is subscribed is not the collector created for this call'
        rep.add('C06.a', 'AwaitableRSocket.%s / limit_rate becomes the initial request-n' % meth, f, ok and n > 0,
                why or 'request(...).initial_request_n(limit_rate).subscribe(CollectorSubscriber(limit_rate))')


def rule_f(ctx):
    """The library's stream source hands every credited element on, once (rules/sources.py)."""
    from .sources import rule_source, rule_small_sources
    rule_source(ctx, 'C06.e')
    rule_small_sources(ctx, 'C06.e')
    # the observable-backed publishers of the Rx adapters: credit reaches one long-lived feeder (shared C20.g)
    from .c20 import rule_g as c20g, rule_i as c20i, rule_k as c20k
    c20k(ctx)
    c20g(ctx)
    # ... and nothing but request(n) puts credit into that queue's Subject (shared C20.i)
    c20i(ctx)


def rule_e(ctx):
    """Credit is really forwarded: REQUEST_N / the initial request-n reach the local producer's request(), and a local
    request(n) puts a REQUEST_N frame into the send queue (C06.a decides which n; this decides that it happens)."""
    from .reactions import rule_reactions
    rule_reactions(ctx, 'C06.d', kinds={'credit'})


def rule_d(ctx):
    from .c05 import rule_a as c05a, rule_b as c05b
    c05a(ctx)
    from .c05 import rule_f as c05f_
    c05f_(ctx)
    c05b(ctx)
    # credit frames are not subject to the lease: REQUEST_N is never held and consumes no allowance
    from .c14 import rule_gate_scope
    rule_gate_scope(ctx)
    # ... nor to reassembly: what the receive path sends through the fragment cache is exactly the fragmentable frame
    # classes (REQUEST_N, a RequestFrame by inheritance, is not one of them) (shared C03.c)
    from .c03 import rule_predicate_is_the_mixin
    rule_predicate_is_the_mixin(ctx)


def rule_genpub(ctx):
    """A completed generator-backed publisher does not start delivering again on a late request(n) (typestate by
    re-entry, rules/genpublisher.py)."""
    from .genpublisher import rule_completed_publisher_stays_completed
    rule_completed_publisher_stays_completed(ctx, 'C07.e')
    from .genpublisher import rule_failure_stops_delivery_first
    rule_failure_stops_delivery_first(ctx, 'C07.e')



def rule_builders_fresh(ctx):
    """C05.h  The credit a REQUEST_N frame carries is the credit of the request() call that queued it: frames wait in
    the send queue as objects, so no frame kept in an attribute or shared by a builder is queued twice
    (rules/plumbing.py)."""
    from .plumbing import rule_builders_fresh as rb
    rb(ctx, 'C05.h')



def rule_dispatch_awaited(ctx):
    """(shared C01.e)  Credit that follows its request on the wire finds the stream registered: the receive loop awaits
    the handler of a request frame - which registers the responder - before it takes the next frame, so a REQUEST_N
    sent right after REQUEST_STREAM / REQUEST_CHANNEL is not dropped as a frame of an unknown stream
    (rules/dispatch.py)."""
    from . import dispatch
    dispatch.rule_lookup(ctx, 'C01.e')



def rule_subscribe_order(ctx):
    """(shared C07.c)  on_subscribe is delivered before the request frame is queued, so whatever a subscriber requests
    from inside on_subscribe is not added to the initial request-n the frame already carries (rules/c07.py); together
    with C06.a (the collector asks for nothing at on_subscribe) the responder is granted what the application
    granted."""
    from .c07 import rule_c as c07c
    c07c(ctx)



def rule_credit_not_written_before_the_request(ctx):
    """(shared C08.m)  Credit the application grants is transmitted with that value: a request(n) made before the
    request frame has been written - from on_subscribe - must not go out as a REQUEST_N for a stream the peer does not
    know yet, where it is dropped (rules/c08.py; known finding F28)."""
    from .c08 import rule_nothing_before_the_request_frame
    rule_nothing_before_the_request_frame(ctx)



RULES = [('C06.a', rule_a), ('C06.b', rule_b), ('C06.c', rule_c), ('C06.a', rule_g), ('C06.d', rule_e), ('C06.e+C20.g+C20.i+C20.k', rule_f), ('C07.e', rule_genpub), ('C05.a+C05.b+C14.f+C03.c', rule_d), ('C05.h', rule_builders_fresh), ('C01.e', rule_dispatch_awaited), ('C07.c', rule_subscribe_order), ('C08.m', rule_credit_not_written_before_the_request)]
