"""C16 Setup handshake: faithful SETUP first; correct accept/reject."""
import ast
from fractions import Fraction

from .. import AnalysisError
from ..effects import is_enq_send, is_resolve, strip_epoch, build_class
from ..index import walk_local, ClassInfo
from ..interp import fmt_term
from ..linear import Lin
from . import COMMON_ASSUMPTIONS

EXPLANATION = (
    'Decides: (a) the unit conversion used for the SETUP periods and the LEASE time-to-live as a linear form over '
    'the atoms days/seconds/microseconds of a timedelta: the returned expression must equal 86400000*days + '
    '1000*seconds + microseconds/1000 (rounding ignored); (b) atomicity of "SETUP first": over the inlined paths of '
    'the client connect(), the store that releases the sender (set_result on the transport future the sender awaits) '
    'is preceded by the head insertion of the SETUP frame, or no suspension point lies between the two - a request '
    'issued by another task can only slip in at a suspension point; (c) provenance of every SETUP field to the '
    'configuration value it must state (lease flag, both periods through the conversion, both encodings, payload '
    'data/metadata, version 1.0), and of the constructor arguments to those attributes; (d) the server side: the '
    'error code raised under each rejection condition (resume flag, lease without publisher, on_setup raising, '
    'RESUME frame), on_setup called once with the fields of the frame, the dispatch table entries, the reply on the '
    'stream id of the offending frame. Not decided: wire order as observed at run time.')
EXPLANATION_ADDED = ('The head insertion puts SETUP in only after the queue was seen empty, keeps what was queued before, and is used by connect() only (shared C05.b). (e) the configuration attributes the constructor fills from its arguments and that connection set-up reads (setup payload, MIME types, keep-alive and lifetime periods, lease flag) are assigned nowhere else, so every reconnect states the same configuration. (round 15) neither the conversion nor the two SETUP period fields truncate a floating-point period: int / floor / trunc / ceil applied directly to an expression of total_seconds(), a true division or a float constant is reported (1.001 s would be announced as 1000 ms); round(), to_milliseconds() and integer arithmetic on the timedelta are accepted.')
EXPLANATION = EXPLANATION.replace(' Not decided', ' ' + EXPLANATION_ADDED + ' Not decided', 1) \
    if ' Not decided' in EXPLANATION else EXPLANATION + ' ' + EXPLANATION_ADDED
ASSUMPTIONS = COMMON_ASSUMPTIONS

D, S, U = 'days', 'seconds', 'microseconds'
DURATION = Lin({D: 86400, S: 1, U: Fraction(1, 10 ** 6)})  # a timedelta, in seconds
UNIT_SECONDS = {'days': 86400, 'seconds': 1, 'microseconds': Fraction(1, 10 ** 6),
                'milliseconds': Fraction(1, 1000), 'minutes': 60, 'hours': 3600, 'weeks': 604800}


def term_to_lin(t, period_term, kind_out=None):
    """Linear form (value, is_duration) of a provenance term built from the timedelta `period_term`."""
    t = strip_epoch(t)
    if t == period_term:
        return DURATION, True
    k = t[0]
    if k == 'const' and isinstance(t[1], (int, float)):
        return Lin.k(Fraction(t[1]).limit_denominator(10 ** 9)), False
    if k == 'attr' and strip_epoch(t[1]) == period_term and t[2] in (D, S, U):
        return Lin.atom(t[2]), False
    if k == 'pure' and t[1] in ('int', 'floor', 'trunc', 'ceil', 'round', 'float') and t[2] is None and \
            len(t) > 3 and isinstance(t[3], tuple) and t[3]:
        return term_to_lin(t[3][0], period_term)
    if k == 'pure' and t[1] == 'total_seconds':
        v, dur = term_to_lin(t[2], period_term)
        if dur:
            return v, False
        raise ValueError('total_seconds() of a non-duration')
    if k == 'call':
        name = str(t[1]).split('.')[-1]
        args = [a for a in t[2] if not (isinstance(a, tuple) and a and a[0] == 'kw')]
        kws = [a for a in t[2] if isinstance(a, tuple) and a and a[0] == 'kw']
        if name in ('round', 'int', 'float', 'floor', 'ceil', 'trunc') and args:
            return term_to_lin(args[0], period_term)
        if name == 'timedelta':
            total = Lin.k(0)
            for _, kw, v in kws:
                lv, dur = term_to_lin(v, period_term)
                if kw not in UNIT_SECONDS or dur:
                    raise ValueError('timedelta(%s=...)' % kw)
                total = total + lv.scale(UNIT_SECONDS[kw])
            if args:
                raise ValueError('positional timedelta arguments')
            return total, True
        raise ValueError('call %s' % name)
    if k == 'op':
        op = t[1]
        a, da = term_to_lin(t[2], period_term)
        b, db = term_to_lin(t[3], period_term)
        if op == 'Add':
            if da != db:
                raise ValueError('adding a duration and a number')
            return a + b, da
        if op == 'Sub':
            if da != db:
                raise ValueError('subtracting a duration and a number')
            return a - b, da
        if op == 'Mult':
            if da and db:
                raise ValueError('duration * duration')
            return a * b, da or db
        if op in ('Div', 'FloorDiv'):
            if db and not da:
                raise ValueError('number / duration')
            return a / b, da and not db
        raise ValueError('operator %s' % op)
    raise ValueError('term %s' % fmt_term(t))


TRUNCATING = ('int', 'floor', 'trunc', 'ceil')


def _float_truncation(t):
    """A truncating conversion (int / floor / trunc / ceil) applied directly to a floating-point expression of a
    period (total_seconds(), true division): 1.001 s * 1000 is 1000.9999999999999 and truncates to 1000 ms, so the
    value put on the wire is not the configured one. round(), to_milliseconds() and pure integer arithmetic on the
    timedelta's integer fields are exact. Returns the offending sub-term or None."""
    t = strip_epoch(t)

    def is_float(x):
        if not isinstance(x, tuple) or not x:
            return False
        if x[0] == 'pure' and x[1] == 'total_seconds':
            return True
        if x[0] == 'op' and x[1] == 'Div':
            return True
        if x[0] == 'const':
            return isinstance(x[1], float)
        if x[0] == 'call':
            name = str(x[1]).split('.')[-1]
            if name in ('round', 'to_milliseconds') or name in TRUNCATING:
                return False
            return name == 'float'
        if x[0] == 'op':
            return any(is_float(y) for y in x[2:])
        return False

    def walk(x):
        if not isinstance(x, tuple) or not x:
            return None
        if x[0] == 'call' and str(x[1]).split('.')[-1] in TRUNCATING:
            args = [a for a in x[2] if not (isinstance(a, tuple) and a and a[0] == 'kw')]
            if args and is_float(strip_epoch(args[0])):
                return x
        if x[0] == 'pure' and x[1] in TRUNCATING and len(x) > 3 and isinstance(x[3], tuple):
            if x[2] is None and x[3] and is_float(strip_epoch(x[3][0])):
                return x
        for y in x:
            if isinstance(y, tuple):
                r = walk(y)
                if r is not None:
                    return r
        return None

    return walk(t)


def rule_a(ctx, rule='C16.a'):
    rep = ctx.report
    f = ctx.repo.func('rsocket.datetime_helpers:to_milliseconds')
    paths = [p for p in ctx.paths(f) if p.outcome == 'return']
    if not paths:
        raise AnalysisError('%s: to_milliseconds has no returning path' % rule)
    params = f.params()
    if len(params) != 1:
        raise AnalysisError('%s: to_milliseconds signature changed' % rule)
    period = ('param', f.qualname, params[0])
    want = Lin({D: 86400 * 1000, S: 1000, U: Fraction(1, 1000)})
    ok = True
    detail = ''
    for p in paths:
        try:
            v, dur = term_to_lin(p.value.term, period)
        except ValueError as e:
            raise AnalysisError('%s: cannot lower the conversion expression to a linear form (%s): %s' % (
                rule, e, fmt_term(p.value.term)))
        bad = _float_truncation(p.value.term)
        if dur:
            ok, detail = False, 'returns a duration, not a number of milliseconds'
        elif bad is not None:
            ok = False
            detail = 'truncates a floating-point number of milliseconds (%s): 1.001 s becomes 1000 ms' % fmt_term(bad)
        elif v != want:
            ok = False
            detail = 'returns %s, expected %s (milliseconds of the period)' % (v, want)
    rep.add(rule, 'to_milliseconds / return expression', f, ok,
            detail or 'the returned value is 86400000*days + 1000*seconds + microseconds/1000 on all %d paths' % len(
                paths))


def _client_connect_paths(ctx, **kw):
    slots = ctx.slots
    f = slots.RSocketClient.lookup('connect')
    if f is None:
        raise AnalysisError('C16: RSocketClient.connect vanished')
    opts = dict(inline_depth=7, no_inline={'stop_all_streams', '_start_tasks', '_subscribe_to_lease_publisher',
                                           '_on_connection_error', '_get_new_transport', '_update_last_keepalive'})
    opts.update(kw)
    return f, ctx.paths(f, slots.RSocketClient, **opts)


def rule_b(ctx, rule='C16.b'):
    rep = ctx.report
    slots = ctx.slots
    f, paths = _client_connect_paths(ctx)
    # the attribute the sender awaits: what _current_transport returns for the client
    ct = slots.RSocketClient.lookup('_current_transport')
    tattr = None
    from ..astutil import returned_exprs
    for v in returned_exprs(ct.node):
        if isinstance(v, ast.Attribute):
            tattr = v.attr
    if tattr is None:
        raise AnalysisError('%s: cannot identify the transport future of the client' % rule)
    seen = 0
    ok = True
    detail = ''
    for p in paths:
        rel = [e for e in p.events if is_resolve(e) == 'set_result' and e.data.get('recv') is not None and
               strip_epoch(e.data['recv'].term)[0] == 'attr' and strip_epoch(e.data['recv'].term)[2] == tattr]
        setup = [e for e in p.events if is_enq_send(e, slots) and e.data.get('args') and e.data['args'][0].types and
                 next(iter(e.data['args'][0].types)).name == 'SetupFrame']
        if not rel:
            continue
        seen += 1
        a = rel[0]
        if not setup:
            if p.outcome == 'return' and p.value is not None and not p.value.is_const():
                ok, detail = False, 'a path releases the sender and completes without queueing SETUP'
            continue
        b = setup[0]
        if b.seq < a.seq:
            continue
        susp = [e for e in p.events if a.seq < e.seq < b.seq and e.kind in ('await', 'yield')]
        if susp:
            ok = False
            detail = 'the sender is released at line %s (set_result on %s) and SETUP is queued only at line %s, with ' \
                     '%d suspension point(s) in between (first at line %s): a request issued meanwhile is sent ' \
                     'before SETUP' % (a.line, tattr, b.line, len(susp), susp[0].line)
    if seen == 0:
        raise AnalysisError('%s: no path of connect() releases the transport future' % rule)
    rep.add(rule, 'RSocketClient.connect / SETUP queued before the sender is released', f, ok,
            detail or 'on all %d releasing paths the SETUP frame is at the head of the send queue before the transport '
                      'future is resolved' % seen)
    # SETUP really goes to the head: the frames drained before it are re-queued after it, in order
    spf = ctx.repo.func('rsocket.rsocket_base:RSocketBase.send_priority_frame')
    okh = True
    for p in ctx.paths(spf, slots.RSocketClient):
        if p.outcome != 'return':
            continue
        puts = [e for e in p.events if is_enq_send(e, slots)]
        if not puts or strip_epoch(puts[0].data['args'][0].term) != ('param', spf.qualname, 'frame'):
            okh = False
    rep.add(rule, 'RSocketBase.send_priority_frame / inserted first', spf, okh,
            'the priority frame is the first one put back into the drained queue' if okh else
            'the priority frame is not the first one re-queued')


def rule_c(ctx):
    rep = ctx.report
    slots = ctx.slots
    f = ctx.repo.func('rsocket.rsocket_base:RSocketBase.connect')
    paths = [p for p in ctx.paths(f, slots.RSocketClient, inline_depth=6,
                                  no_inline={'_subscribe_to_lease_publisher'}) if p.outcome == 'return']
    if not paths:
        raise AnalysisError('C16.c: RSocketBase.connect has no returning path')
    want = {
        'flags_lease': lambda t: _only_attr(t, '_honor_lease'),
        'keep_alive_milliseconds': lambda t: _mentions_attr(t, '_keep_alive_period') and not _mentions_attr(
            t, '_max_lifetime_period') and _float_truncation(t) is None,
        'max_lifetime_milliseconds': lambda t: _mentions_attr(t, '_max_lifetime_period') and not _mentions_attr(
            t, '_keep_alive_period') and _float_truncation(t) is None,
        'data_encoding': lambda t: _only_attr(t, '_data_encoding'),
        'metadata_encoding': lambda t: _only_attr(t, '_metadata_encoding'),
        'major_version': lambda t: t == ('const', 1),
        'minor_version': lambda t: t == ('const', 0),
    }
    payload_fields = {'data': 'data', 'metadata': 'metadata'}
    results = {k: [] for k in list(want) + list(payload_fields)}
    for p in paths:
        objs = [e.data['value'].term for e in p.events if e.kind == 'new' and e.data['cls'].name == 'SetupFrame']
        if len(objs) != 1:
            raise AnalysisError('C16.c: connect() builds %d SETUP frames on a path' % len(objs))
        obj = objs[0]
        last = {}
        for e in p.events:
            if e.kind == 'store' and e.data['target'][0] == 'attr' and e.data['target'][1] == obj:
                last[e.data['target'][2]] = strip_epoch(e.data['value'].term)
        for k, pred in want.items():
            results[k].append(k in last and pred(last[k]))
        for k, src in payload_fields.items():
            t = last.get(k)
            # payload given: copy of setup_payload.<field>; no payload: the frame's empty default
            good = t is not None and (
                (t[0] == 'attr' and t[2] == src and _only_attr(t[1], '_setup_payload')) or t == ('const', b''))
            results[k].append(good)
    for k, vals in results.items():
        ok = all(vals)
        rep.add('C16.c', 'SetupFrame.%s / states the configuration' % k, f, ok,
                'is the configured value on all %d paths' % len(vals) if ok else
                'SETUP field %s is not the configured value on %d of %d paths' % (k, vals.count(False), len(vals)))
    # constructor arguments reach the attributes unmodified (encodings through ensure_encoding_name)
    init = slots.RSocketBase.methods['__init__']
    pairs = {'_honor_lease': 'honor_lease', '_keep_alive_period': 'keep_alive_period',
             '_max_lifetime_period': 'max_lifetime_period', '_setup_payload': 'setup_payload',
             '_data_encoding': 'data_encoding', '_metadata_encoding': 'metadata_encoding'}
    ips = [p for p in ctx.paths(init, slots.RSocketServer, inline_depth=3, no_inline={'_setup_internals'})
           if p.outcome == 'return']
    if not ips:
        raise AnalysisError('C16.c: RSocketBase.__init__ has no returning path')
    for attr, param in pairs.items():
        ok = True
        for p in ips:
            v = None
            for e in p.events:
                if e.kind == 'store' and e.data['target'][0] == 'attr' and e.data['target'][2] == attr and \
                        e.data['target'][1] == ('self',):
                    v = strip_epoch(e.data['value'].term)
            if v is None or not _derived_only_from_param(v, init.qualname, param):
                ok = False
        rep.add('C16.c', 'RSocketBase.__init__ / %s from argument %s' % (attr, param), init, ok,
                'the attribute is the constructor argument (encodings: its name)' if ok else
                'the attribute is not derived from the constructor argument %s alone' % param)


def _atoms(t, out):
    if isinstance(t, tuple):
        if t and t[0] in ('attr', 'param'):
            out.append(t)
            if t[0] == 'attr':
                return
        for x in t:
            _atoms(x, out)


def _mentions_attr(t, name):
    out = []

    def walk(x):
        if isinstance(x, tuple):
            if x and x[0] == 'attr' and x[2] == name:
                out.append(x)
            for y in x:
                walk(y)

    walk(t)
    return bool(out)


def _only_attr(t, name):
    return isinstance(t, tuple) and t and t[0] == 'attr' and t[2] == name and t[1] == ('self',)


def _derived_only_from_param(t, fq, param):
    """The value is the parameter itself, an attribute (.value.name) of it, or ensure_bytes/encode of it."""
    params = []

    def walk(x):
        if isinstance(x, tuple):
            if x and x[0] == 'param' and x[1] == fq:
                params.append(x[2])
            for y in x:
                walk(y)

    walk(t)
    if not params or set(params) != {param}:
        return False
    # no arithmetic
    def has_op(x):
        if isinstance(x, tuple):
            if x and x[0] in ('op', 'unop'):
                return True
            return any(has_op(y) for y in x)
        return False
    return not has_op(t)


def rule_d(ctx):
    rep = ctx.report
    slots = ctx.slots
    hs = ctx.repo.func('rsocket.rsocket_base:RSocketBase.handle_setup')
    fr = slots.frame_classes['SetupFrame']
    frame_term = ('param', hs.qualname, 'frame')

    def run(flags, lease_pub_none):
        heap = {(frame_term, k): ctx_const(v) for k, v in flags.items()}
        # what on_setup raises may be anything - one of the library's own protocol errors included
        return ctx.paths(hs, slots.RSocketServer, exc=('app', 'protocol'), initial_heap=heap,
                         no_inline={'_subscribe_to_lease_publisher'})

    from ..interp import const as ctx_const
    cases = [
        ('resume requested', {'flags_resume': True, 'flags_lease': False}, 'UNSUPPORTED_SETUP'),
        ('lease requested without a lease publisher', {'flags_resume': False, 'flags_lease': True},
         'UNSUPPORTED_SETUP'),
    ]
    from .c13 import _error_code_of
    for label, flags, code in cases:
        ps = run(flags, True)
        raising = [p for p in ps if p.outcome == 'raise']
        # for the lease case only the paths where the publisher is None must raise
        if 'lease' in label:
            raising = [p for p in ps if p.outcome == 'raise' and any(
                e.kind == 'cond' and e.data['key'][0] == 'isnone' and e.data['value'] is True and
                '_lease_publisher' in repr(e.data['key']) for e in p.events)]
            must = [p for p in ps if any(
                e.kind == 'cond' and e.data['key'][0] == 'isnone' and e.data['value'] is True and
                '_lease_publisher' in repr(e.data['key']) for e in p.events)]
        else:
            must = ps
        codes = {_error_code_of(p) for p in raising}
        ok = bool(must) and len(raising) == len(must) and codes == {code}
        rep.add('C16.d', 'RSocketBase.handle_setup / %s' % label, hs, ok,
                'rejected with %s before on_setup is called' % code if ok else
                '%s is answered with %s on %d of %d paths (expected %s on all)' % (
                    label, sorted(map(str, codes)), len(raising), len(must), code))
        called = [p for p in must if any(e.kind == 'call' and e.data.get('name') == 'on_setup' for e in p.events)]
        rep.add('C16.d', 'RSocketBase.handle_setup / %s: on_setup not called' % label, hs, not called,
                'the handler is not told about a rejected SETUP' if not called else
                'on_setup is called although the SETUP is rejected')
    # acceptable SETUP: on_setup exactly once, with the frame's fields; raising on_setup -> REJECTED_SETUP
    ps = run({'flags_resume': False, 'flags_lease': False}, True)
    ok_once = True
    ok_args = True
    ok_reject = True
    n_raise = 0
    for p in ps:
        calls = [e for e in p.events if e.kind == 'call' and e.data.get('name') == 'on_setup']
        if len(calls) != 1:
            ok_once = False
            continue
        a = [strip_epoch(x.term) for x in calls[0].data['args']]
        if len(a) != 3 or a[0] != ('attr', frame_term, 'data_encoding') or a[1] != ('attr', frame_term,
                                                                                      'metadata_encoding'):
            ok_args = False
        app_raise = [e for e in p.events if e.kind == 'raise' and e.data.get('implicit') in ('app', 'protocol') and
                     e.data.get('call') == calls[0].seq]
        if app_raise:
            n_raise += 1
            if p.outcome != 'raise' or _error_code_of(p) != 'REJECTED_SETUP':
                ok_reject = False
    rep.add('C16.d', 'RSocketBase.handle_setup / on_setup once per acceptable SETUP', hs, ok_once,
            'called exactly once on every path' if ok_once else 'on_setup is not called exactly once')
    rep.add('C16.d', 'RSocketBase.handle_setup / on_setup receives the frame fields', hs, ok_args,
            'data encoding, metadata encoding and payload of the frame, in that order' if ok_args else
            'on_setup does not receive (data_encoding, metadata_encoding, payload) of the frame')
    rep.add('C16.d', 'RSocketBase.handle_setup / on_setup raising', hs, ok_reject and n_raise > 0,
            'an exception from on_setup becomes REJECTED_SETUP' if ok_reject and n_raise > 0 else
            'an exception from on_setup is not answered with REJECTED_SETUP')
    # RESUME
    hr = ctx.repo.func('rsocket.rsocket_base:RSocketBase.handle_resume')
    ps = ctx.paths(hr, slots.RSocketServer)
    codes = {_error_code_of(p) for p in ps if p.outcome == 'raise'}
    ok = codes == {'REJECTED_RESUME'} and all(p.outcome == 'raise' for p in ps)
    rep.add('C16.d', 'RSocketBase.handle_resume / rejected', hr, ok,
            'every RESUME is answered with REJECTED_RESUME' if ok else 'RESUME is answered with %s' % sorted(
                map(str, codes)))
    # dispatch table rows
    from . import dispatch
    dispatch.rule_rows(ctx, 'C16.d', ['SetupFrame', 'ResumeFrame'])
    dispatch.rule_lookup(ctx, 'C16.d')
    dispatch.rule_routing(ctx, 'C16.d', only=['SetupFrame', 'ResumeFrame'])
    rl = dispatch.receiver(ctx)
    # error replies use the stream id of the frame being handled (0 for SETUP / RESUME): shared C12.b, decided on the
    # paths of the receive loop (a helper between the handler and send_error does not matter)
    from .c12 import rule_b as c12b
    c12b(ctx, check_untouched=False)


def rule_plumbing(ctx):
    """SETUP is first: the head insertion really puts the frame first and keeps what was queued before."""
    from . import plumbing
    plumbing.rule_priority_insert(ctx, 'C16.b')
    # ... and nothing but connect()'s SETUP uses the head insertion (shared C05.b): a LEASE or CANCEL inserted at the
    # head while SETUP is still queued goes out before it
    from .c05 import rule_b as c05b
    c05b(ctx)


def rule_setup_layout(ctx):
    """What SETUP carries on the wire is what the frame object holds: version, both periods as full 32-bit
    millisecond counts, MIME types, flags and payload are written and read at the positions and widths of the RSocket
    1.0 layout (shared C02.a for SetupFrame, both codec backends)."""
    from .c02 import rule_a as c02a
    c02a(ctx, only={'SetupFrame'})


def rule_e(ctx):
    """What the client was configured with is still there for the next connection: the attributes __init__ fills from
    the constructor arguments and that SETUP (and the keepalive / lease machinery) read are written nowhere else.  A
    'clean-up' of one of them on close() silently changes the SETUP of every reconnect."""
    rep = ctx.report
    slots = ctx.slots
    base = slots.RSocketBase
    init = base.lookup('__init__')
    params = set(init.params()[1:])
    config = {}
    for n in walk_local(init.node):
        if isinstance(n, ast.Assign) and len(n.targets) == 1 and isinstance(n.targets[0], ast.Attribute) and \
                isinstance(n.targets[0].value, ast.Name) and n.targets[0].value.id == 'self':
            names = {x.id for x in ast.walk(n.value) if isinstance(x, ast.Name)}
            from_params = names & params
            if from_params:
                # (what the value is - the argument unmodified - is C16.c; here only: who else writes it)
                config[n.targets[0].attr] = sorted(from_params)[0]
    # those the connection set-up reads
    readers = [base.lookup('connect'), base.lookup('_create_setup_frame'), base.lookup('send_request'),
               slots.RSocketClient.lookup('_keepalive_send_task'), slots.RSocketClient.lookup('_keepalive_timeout_task')]
    read = set()
    for f in readers:
        if f is None:
            continue
        for n in walk_local(f.node):
            if isinstance(n, ast.Attribute) and isinstance(n.value, ast.Name) and n.value.id == 'self' and \
                    isinstance(n.ctx, ast.Load) and n.attr in config:
                read.add(n.attr)
    rep.require('C16.e', 'configuration attributes read when a connection is set up', len(read), 6)
    for a in sorted(read):
        writers = [(f, st) for f, st, _ in ctx.repo.attr_assignments(slots.RSocketClient, a) +
                   ctx.repo.attr_assignments(slots.RSocketServer, a) if f.name != '__init__']
        seen = set()
        writers = [(f, st) for f, st in writers if not (id(st) in seen or seen.add(id(st)))]
        rep.add('C16.e', 'RSocketBase.%s / configuration is written by the constructor only' % a, init, not writers,
                'set from the constructor argument %s and never reassigned' % config[a] if not writers else
                '%s (line %d) reassigns self.%s: connections made after that do not state what the client was '
                'configured with' % (writers[0][0].short, writers[0][1].lineno, a))


def _content_failures(repo, f, depth=0, seen=None):
    """Operations in f (and in the repository functions it calls, three levels deep) that raise for some content of a
    received frame: strict text decoding, number parsing, JSON parsing, indexing by position, an explicit raise.
    A deny-list: each listed form does fail on some input, anything else is not judged."""
    seen = seen if seen is not None else set()
    if f in seen:
        return []
    seen.add(f)
    out = []
    m = f.module
    for n in walk_local(f.node):
        if isinstance(n, ast.Raise):
            out.append('%s raises' % f.name)
        elif isinstance(n, ast.Subscript) and isinstance(n.ctx, ast.Load) and not isinstance(n.slice, ast.Slice) and \
                not isinstance(n.value, ast.Name):
            # x.attr[i] on frame content: IndexError / KeyError (annotations and tables by name are not content)
            out.append('%s indexes %s' % (f.name, ast.unparse(n)))
        elif isinstance(n, ast.Call):
            fn = n.func
            kw = {k.arg: k.value for k in n.keywords}
            if isinstance(fn, ast.Attribute) and fn.attr == 'decode':
                errors = kw.get('errors') or (n.args[1] if len(n.args) > 1 else None)
                if not (isinstance(errors, ast.Constant) and errors.value in ('replace', 'ignore', 'backslashreplace',
                                                                              'surrogateescape')):
                    out.append('%s decodes %s strictly' % (f.name, ast.unparse(fn.value)))
            elif isinstance(fn, ast.Name) and fn.id in ('int', 'float') and n.args and \
                    not isinstance(n.args[0], ast.Constant):
                out.append('%s parses a number from %s' % (f.name, ast.unparse(n.args[0])))
            elif isinstance(fn, ast.Name) and fn.id == 'str' and len(n.args) > 1:
                out.append('%s decodes %s strictly' % (f.name, ast.unparse(n.args[0])))
            elif isinstance(fn, ast.Attribute) and fn.attr == 'loads':
                out.append('%s parses %s' % (f.name, ast.unparse(n.args[0]) if n.args else '?'))
            else:
                target = repo.resolve_expr(m, fn) if isinstance(fn, (ast.Name, ast.Attribute)) else None
                if isinstance(target, list) and target and depth < 3:
                    out.extend(_content_failures(repo, target[-1], depth + 1, seen))
    return out


def rule_f(ctx):
    """C16.f  Nothing that runs on a received frame before it is dispatched can fail on the frame's content.  The
    receive loop logs every frame first (log_frame and the per-type functions of its table); the arguments of a
    logging call are evaluated whatever the log level, and an exception there reaches the catch-all of the receive
    loop, which answers with APPLICATION_ERROR on the frame's stream: a SETUP is then neither accepted nor rejected
    with its own code."""
    rep = ctx.report
    repo = ctx.repo
    m = repo.module('rsocket.frame_logger')
    if m is None or not m.functions.get('log_frame'):
        raise AnalysisError('C16.f: rsocket.frame_logger.log_frame vanished')
    base = ctx.slots.RSocketBase
    hn = base.lookup('_handle_next_frame')
    first = [n for n in walk_local(hn.node) if isinstance(n, ast.Call) and isinstance(n.func, ast.Name) and
             n.func.id == 'log_frame'] if hn is not None else []
    if not first:
        raise AnalysisError('C16.f: the receive path no longer logs through log_frame')
    fs = []
    for name, lst in m.functions.items():
        fs.extend(lst[-1:])
    rep.require('C16.f', 'functions of the frame logger', len(fs), 8)
    for f in fs:
        bad = _content_failures(repo, f)
        rep.add('C16.f', 'frame logger / %s cannot fail on the content of a frame' % f.name, f, not bad,
                'no strict decoding, number parsing, positional indexing or raise in it or in what it calls' if not bad
                else '%s: for a frame whose bytes do not fit, the exception is raised before the frame is dispatched '
                     'and the peer gets APPLICATION_ERROR instead of the answer to its frame' % '; '.join(
                    sorted(set(bad))))



def rule_error_conversion(ctx):
    """The setup error codes C16.d decides at the raise sites reach the wire through exception_to_error_frame, and the client learns them through error_frame_to_exception (shared C12.l)."""
    from .c12 import rule_error_conversion as conv
    conv(ctx, 'C12.l')



NAME_CHANGING = ('lower', 'upper', 'casefold', 'strip', 'lstrip', 'rstrip', 'title', 'capitalize', 'swapcase',
                 'replace', 'translate', 'removeprefix', 'removesuffix')


def rule_names_unchanged(ctx):
    """C16.g  SETUP states the configured MIME types, not a normalised spelling of them: the helpers every configured
    encoding passes through on its way into the frame (ensure_encoding_name, ensure_bytes, str_to_bytes) return the
    name as given - the enum member's name, the bytes, or the str encoded - and apply none of the str / bytes methods
    that change a name (lower, strip, replace, ...).  The server hands on_setup what is in the frame, and MIME
    parameters and vendor trees are case-sensitive to the applications that chose them."""
    rep = ctx.report
    repo = ctx.repo
    n = 0
    for q in ('rsocket.extensions.mimetypes:ensure_encoding_name', 'rsocket.frame_helpers:ensure_bytes',
              'rsocket.frame_helpers:str_to_bytes'):
        f = repo.func(q)
        if f is None:
            raise AnalysisError('C16.g: %s vanished' % q)
        n += 1
        changing = [x for x in walk_local(f.node) if isinstance(x, ast.Call) and isinstance(x.func, ast.Attribute) and
                    x.func.attr in NAME_CHANGING]
        rep.add('C16.g', '%s / hands the configured name on as given' % f.name, f, not changing,
                'no name-changing method is applied' if not changing else
                '%s: the MIME type the client was configured with is not what SETUP states and on_setup receives' %
                ', '.join('.%s()' % x.func.attr for x in changing))
    rep.require('C16.g', 'helpers the configured encodings pass through', n, 3)




def rule_adapters_pass_rejections_on(ctx):
    """(shared C20.p)  A server whose handler is wrapped in an Rx adapter still rejects what its on_setup rejects: the
    adapters do not swallow the delegate's exceptions (rules/c20.py)."""
    from .c20 import rule_delegations_propagate
    rule_delegations_propagate(ctx)



RULES = [('C16.a', rule_a), ('C16.b', rule_b), ('C16.c', rule_c), ('C16.d', rule_d), ('C16.b', rule_plumbing), ('C16.e', rule_e), ('C02.a', rule_setup_layout), ('C16.f', rule_f), ('C12.l', rule_error_conversion), ('C16.g', rule_names_unchanged), ('C20.p', rule_adapters_pass_rejections_on)]
