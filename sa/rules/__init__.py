"""Rule registry: property id -> module with RULES, EXPLANATION, ASSUMPTIONS."""
import importlib

from ..effects import Slots
from ..interp import Interp, Options

COMMON_ASSUMPTIONS = [
    'closed world: the analysed program is the rsocket and reactivestreams packages under the repository root; '
    'application code is modelled as call-outs that may raise and may re-enter the public API',
    'asyncio model: one thread; another task or callback runs only at await / async for / async with / yield; '
    'add_done_callback and call_soon defer to a later loop iteration',
    'trusted base: CPython ast module, the tables in sa/tables.py, the effect primitives of sa/effects.py',
    'each rule decides a named structural clause that is necessary for the property, not the run-time behaviour',
]


class Ctx:
    def __init__(self, repo, report, tier, seed):
        self.repo = repo
        self.report = report
        self.tier = tier
        self.seed = seed
        self._slots = None
        self._stats = {'entry_functions_interpreted': 0, 'paths_enumerated': 0, 'calls_inlined': 0,
                       'calls_app': 0, 'calls_external': 0, 'calls_unresolved': 0, 'calls_ambiguous': 0}
        self.cache = {}

    @property
    def slots(self) -> Slots:
        if self._slots is None:
            self._slots = Slots(self.repo)
        return self._slots

    def paths(self, func, self_cls=None, args=None, self_val=None, **opts):
        it = Interp(self.repo, Options(**opts))
        ps = it.run(func, self_cls, args, self_val)
        s = self._stats
        s['entry_functions_interpreted'] += 1
        s['paths_enumerated'] += len(ps)
        s['calls_inlined'] += it.stats.get('inlined', 0)
        s['calls_app'] += it.stats.get('app', 0)
        s['calls_external'] += it.stats.get('external', 0)
        s['calls_unresolved'] += it.stats.get('unknown', 0)
        s['calls_ambiguous'] += it.stats.get('ambiguous', 0)
        return ps

    def stats(self):
        d = dict(self._stats)
        d.update({'modules': len(self.repo.modules), 'classes': len(self.repo.all_classes()),
                  'functions': len(self.repo.all_functions())})
        return d


class _Lazy(dict):
    def __missing__(self, key):
        try:
            m = importlib.import_module('.%s' % key.lower(), __name__)
        except ModuleNotFoundError:
            raise KeyError(key)
        self[key] = m
        return m

    def __contains__(self, key):
        try:
            self[key]
            return True
        except KeyError:
            return False


_IDS = ['C%02d' % i for i in range(1, 21)]


class _Props(_Lazy):
    def __iter__(self):
        return iter([k for k in _IDS if k in self])

    def __len__(self):
        return len(list(iter(self)))


PROPERTIES = _Props()
