"""C11 Connection loss or close fails everything pending, exactly once."""
import ast

from .. import AnalysisError
from ..effects import is_cancel_call, is_resolve, is_deq_send, is_spawn, strip_epoch, is_gone, gone_key
from ..index import walk_local, ClassInfo
from ..interp import const,  fmt_term
from . import COMMON_ASSUMPTIONS
from .handlers import model, H_TERM
from .c07 import init_bools

EXPLANATION = (
    'Decides the shape of the close sequence with exception edges enabled (every call-out to application code may '
    'raise, every await may be cancelled, every awaited transport call may raise RSocketTransportError): (a) from '
    'each of the three ways the receiver ends - normal return, cancellation, transport error - the close sequence '
    'is reached; (b) inside the close sequence on_close and the task shutdown are reached on every path, also the '
    'exceptional ones, and no exception of a per-stream call-out leaves the loop body of stop_all_streams; (c) every '
    'instantiated handler class is covered by the loop (Requester or Disposable), every dispose() cancels its '
    'producer, the synthetic frame carries CONNECTION_ERROR; (d) on_close has a single call site, reached from the '
    'receiver only, and the receiver is spawned at one site; (e) every task stored in an attribute of the socket '
    'classes is cancelled on the stop path; (f) awaits on stream/third-party objects in the anchored transports are '
    'inside the exception wrapper; (g) the sent-futures handed to the application are settled by the close sequence '
    '(both queues drained) and by the sender on every edge out of the write. Not decided: behaviour per byte offset '
    '(all cut points funnel into the three receiver exits) and timing.')
EXPLANATION_ADDED = ("(h) the reconnect listener's exits fail the registered streams; (i) a cancellation delivered inside the sender or the keepalive loops ends the task; wrap_transport_exception really raises RSocketTransportError; _fail_unsent_frames drains both queues (only while non-empty, until empty) and fails every pending sent-future; close() stops the tasks and then closes an obtained transport; the loop's isinstance dispatch agrees with the handler roles derived from behaviour; (j) close() of a load-balancer strategy closes every member of the pool requests are routed over, with one member's failing close() isolated from the others (gather with return_exceptions, or a contained await per member), and the load-balancer socket's close()/__aexit__ await it unconditionally; a failing transport.close() is contained in _close_transport; (k) every message (websocket-style) transport puts an exception into its incoming queue on every way its feeder can stop - normal end, error, and cancellation unless the feeder is a task the transport itself owns and cancels from close() - or, for call-back style feeders, from the disconnect call-back, so the receiver runs the close sequence when the peer goes away; (l) the awaitable adapter's close / connect / context-manager methods run the wrapped socket's coroutine (awaited or returned), not merely create it; (m) a CancelledError delivered inside an entry point of the library's own request handlers (routing handler, Rx adapters; they are awaited inline by the receiver) propagates out of it. (round 15) the requesting end of a channel, which the close sequence fails and then disposes, cancels its local producer in dispose() from every state the synthetic ERROR leaves (unless the ERROR branch already did); _close_transport has no exit without close() other than finding no transport obtained.")
EXPLANATION = EXPLANATION.replace(' Not decided', ' ' + EXPLANATION_ADDED + ' Not decided', 1) \
    if ' Not decided' in EXPLANATION else EXPLANATION + ' ' + EXPLANATION_ADDED
ASSUMPTIONS = COMMON_ASSUMPTIONS + [
    'application call-outs raise subclasses of Exception that are not library exception classes',
]

SOCKETS = ('RSocketClient', 'RSocketServer')


def _socket_classes(ctx):
    return [ctx.slots.RSocketClient, ctx.slots.RSocketServer]


def rule_a(ctx):
    rep = ctx.report
    f = ctx.repo.func('rsocket.rsocket_base:RSocketBase._receiver')
    for cls in _socket_classes(ctx):
        paths = ctx.paths(f, cls, exc=('app', 'cancel', 'transport'),
                          no_inline={'_receiver_listen', '_on_connection_closed'})
        exits = {}
        for p in paths:
            listen = [e for e in p.events if e.kind == 'call' and e.data.get('name') == '_receiver_listen']
            if not listen:
                raise AnalysisError('C11.a: _receiver does not call _receiver_listen on a path')
            ev = listen[0]
            how = 'normal'
            for e in p.events:
                if e.kind == 'raise' and e.seq > ev.seq and e.data.get('implicit') and how == 'normal':
                    # the first implicit raise after the listen call decides how the listen ended, if it happened
                    # before the close sequence was entered
                    closed_before = any(c.kind == 'call' and c.data.get('name') == '_on_connection_closed' and
                                        c.seq < e.seq for c in p.events)
                    if not closed_before:
                        how = e.data['implicit']
            closed = any(c.kind == 'call' and c.data.get('name') == '_on_connection_closed' for c in p.events)
            exits.setdefault(how, []).append(closed)
        for how in ('normal', 'cancel', 'transport'):
            if how not in exits:
                raise AnalysisError('C11.a: no path where the receiver ends by %s' % how)
            ok = all(exits[how])
            rep.add('C11.a', '%s._receiver / receiver ends by %s' % (cls.name, how), f, ok,
                    'the close sequence is reached on all %d such paths' % len(exits[how]) if ok else
                    'the receiver can end by %s without running the close sequence' % how)


def rule_b(ctx):
    rep = ctx.report
    slots = ctx.slots
    # (1) nothing raised by a per-stream call-out leaves the loop body of stop_all_streams
    f = ctx.repo.func('rsocket.stream_control:StreamControl.stop_all_streams')
    paths = ctx.paths(f, slots.StreamControl, exc=('app',), no_inline={'frame_received', 'dispose'})
    callouts = set()
    escaping = []
    for p in paths:
        for e in p.events:
            if e.kind == 'call' and e.data.get('name') in ('frame_received', 'dispose'):
                callouts.add(e.data['name'])
        if p.outcome == 'raise':
            r = [e for e in p.events if e.kind == 'raise' and e.data.get('implicit') == 'app']
            escaping.append(r[-1] if r else None)
    rep.require('C11.b', 'per-stream call-outs in stop_all_streams', len(callouts), 1)
    if escaping:
        e = escaping[0]
        rep.bad('C11.b', 'StreamControl.stop_all_streams / loop body', (f.file, e.line if e else f.line),
                'an exception raised by application code reached through the call at line %s leaves the loop: the '
                'remaining streams are not failed' % (e.line if e else '?'))
    else:
        rep.ok('C11.b', 'StreamControl.stop_all_streams / loop body', f,
               'exceptions of frame_received()/dispose() call-outs are contained per stream (%d paths)' % len(paths))
    # and each iteration still removes the entry when a call-out raised
    ok = True
    for p in paths:
        if p.outcome == 'return' and any(e.kind == 'except' for e in p.events):
            if not any(is_gone(e, slots) for e in p.events):
                ok = False
    rep.add('C11.b', 'StreamControl.stop_all_streams / entry removed after a failing call-out', f, ok,
            'the entry is removed also on the paths where a call-out raised' if ok else
            'a path that caught a call-out exception does not remove the entry')
    # (2) the close sequence reaches on_close and the task shutdown on every path
    g = ctx.repo.func('rsocket.rsocket_base:RSocketBase._on_connection_closed')
    for cls in _socket_classes(ctx):
        stop = cls.lookup('_stop_tasks')
        paths = ctx.paths(g, cls, exc=('app',), no_inline={'stop_all_streams', '_stop_tasks', '_fail_unsent_frames'})
        miss_close = [p for p in paths if not any(e.kind == 'call' and e.data.get('name') == 'on_close'
                                                  for e in p.events)]
        miss_stop = [p for p in paths if not any(e.kind == 'call' and e.data.get('name') == '_stop_tasks'
                                                 for e in p.events)]
        rep.add('C11.b', '%s._on_connection_closed / on_close reached' % cls.name, g, not miss_close,
                'on_close is delivered on all %d paths, including those where failing the streams raised' % len(paths)
                if not miss_close else
                '%d of %d paths (an earlier step of the close sequence raised) skip on_close' % (len(miss_close),
                                                                                                  len(paths)))
        rep.add('C11.b', '%s._on_connection_closed / tasks stopped' % cls.name, g, not miss_stop,
                'the task shutdown is reached on all %d paths' % len(paths) if not miss_stop else
                '%d of %d paths skip the task shutdown (sender and keepalive keep running)' % (len(miss_stop),
                                                                                              len(paths)))


def rule_b2(ctx, rule='C11.b'):
    """Failing the pending streams is the first step of the close sequence, or is protected from the steps before it:
    a step that raises (failing the sent-futures of queued frames can) must not be able to skip it."""
    rep = ctx.report
    g = ctx.repo.func('rsocket.rsocket_base:RSocketBase._on_connection_closed')
    for cls in _socket_classes(ctx):
        ok = True
        why = ''
        n = 0
        for p in ctx.paths(g, cls, exc=(), no_inline={'stop_all_streams', '_stop_tasks', '_fail_unsent_frames',
                                                       'on_close'}):
            if p.outcome != 'return':
                continue
            n += 1
            calls = [e for e in p.events if e.kind == 'call' and e.data.get('how') != 'external' and
                     e.data.get('name') not in ('_log_identifier', 'logger')]
            stops = [e for e in calls if e.data.get('name') == 'stop_all_streams']
            if not stops:
                ok, why = False, 'the close sequence does not fail the pending streams'
                continue
            before = [e for e in calls if e.seq < stops[0].seq]
            # a preceding step is tolerated only inside a try whose handler swallows what it raises
            unprotected = []
            for e in before:
                guarded = False
                for t in walk_local(g.node):
                    if isinstance(t, ast.Try) and any(e.node in ast.walk(b) for b in t.body) and \
                            not any(stops[0].node in ast.walk(b) for b in t.body) and any(
                            h.type is None or 'Exception' in ast.unparse(h.type) for h in t.handlers):
                        guarded = True
                if not guarded:
                    unprotected.append(e)
            if unprotected:
                ok, why = False, ('%s() runs before stop_all_streams() and is not protected: if it raises, the pending '
                                  'requests are never failed (on_close still runs, so the socket looks closed)' %
                                  unprotected[0].data.get('name'))
        rep.add(rule, '%s._on_connection_closed / failing the streams cannot be skipped by an earlier step' % cls.name,
                g, ok and n > 0, why or 'stop_all_streams() is the first step of the sequence (%d paths)' % n)


def rule_c(ctx):
    rep = ctx.report
    slots = ctx.slots
    m = model(ctx)
    for h in m.handlers:
        covered = h.is_subclass_of(slots.Requester) or h.is_subclass_of(slots.Disposable)
        rep.add('C11.c', '%s / covered by the close loop' % h.name, h, covered,
                'is a Requester or a Disposable' if covered else
                'neither Requester nor Disposable: stop_all_streams would remove it without failing or cancelling it')
    # the loop really dispatches on those two interfaces
    f = ctx.repo.func('rsocket.stream_control:StreamControl.stop_all_streams')
    tests = set()
    for n in walk_local(f.node):
        if isinstance(n, ast.Call) and isinstance(n.func, ast.Name) and n.func.id == 'isinstance' and len(n.args) == 2:
            r = ctx.repo.resolve_expr(f.module, n.args[1])
            if isinstance(r, ClassInfo):
                tests.add(r)
    ok = slots.Requester in tests and slots.Disposable in tests
    rep.add('C11.c', 'StreamControl.stop_all_streams / dispatch on Requester and Disposable', f, ok,
            'the loop fails Requesters and disposes Disposables' if ok else
            'the loop no longer tests for both interfaces (%s)' % sorted(t.name for t in tests))
    # per handler class (the loop variable bound to an instance of it): a Requester receives the synthetic ERROR,
    # a Disposable is disposed - a class that is both gets both
    from ..interp import AVal as _AVal

    for h in m.handlers:
        def bind(node, st, itv, h=h):
            names = [x.id for x in ast.walk(node.target) if isinstance(x, ast.Name)]
            if len(names) == 2:
                return [{names[1]: _AVal(('stream', h.name), [h], exact=True)}]
            return None
        ps = ctx.paths(f, slots.StreamControl, loop_bind=bind, no_inline={'frame_received', 'dispose'})
        its = [p for p in ps if any(e.kind == 'loop' and e.data.get('phase') == 'enter' for e in p.events) and
               p.outcome == 'return']
        if not its:
            raise AnalysisError('C11.c: no loop iteration in stop_all_streams')
        # by role, not by marker base class: whoever issued a request is failed; whoever holds a local producer (every
        # responder, and both ends of a channel) is disposed
        inter, role = m.role(h)
        want_fail = role == 'requester'
        want_dispose = role == 'responder' or inter == 'channel'
        ok = True
        for p in its:
            failed = any(e.kind == 'call' and e.data.get('name') == 'frame_received' and e.data.get('args') and
                         e.data['args'][0].types and next(iter(e.data['args'][0].types)).name == 'ErrorFrame'
                         for e in p.events)
            disposed = any(e.kind == 'call' and e.data.get('name') == 'dispose' for e in p.events)
            if failed != want_fail or disposed != want_dispose:
                ok = False
        rep.add('C11.c', 'StreamControl.stop_all_streams / %s failed and disposed as its interfaces require' % h.name,
                f, ok,
                '%s%s' % ('receives the synthetic ERROR' if want_fail else 'is not a requester',
                          ', is disposed' if want_dispose else '') if ok else
                'an instance of %s (%s) is not %s on every iteration path' % (
                    h.name, '+'.join(x for x, w in (('issues requests', want_fail),
                                                    ('holds a producer', want_dispose)) if w),
                    ' and '.join(x for x, w in (('failed with the synthetic ERROR', want_fail),
                                                ('disposed', want_dispose)) if w)))
    # requesters are failed through frame_received(ErrorFrame); responders' dispose() cancels the producer
    for h in m.handlers:
        if h.is_subclass_of(slots.Disposable):
            d = h.lookup('dispose')
            pre0 = init_bools(ctx, m, h)
            ens = [en for en in m.entries(h) if en.kind == 'method' and en.func is d]
            if not ens:
                raise AnalysisError('C11.c: %s.dispose is not an entry' % h.name)
            paths = [p for p in m.run(ens[0], pre0) if p.outcome == 'return']
            ok = True
            for p in paths:
                none_shown = any(e.kind == 'cond' and e.data['key'][0] == 'isnone' and e.data['value'] is True
                                 for e in p.events)
                if not m.producer_cancelled(p) and not none_shown:
                    ok = False
            rep.add('C11.c', '%s.dispose / cancels the producer' % h.name, d, ok,
                    'subscription/future is cancelled (or shown absent) on all %d paths' % len(paths) if ok else
                    'a dispose() path neither cancels the producer nor shows there is none')
            # a handler that is failed AND disposed by the loop (the requesting end of a channel) reaches dispose() in the
            # state the synthetic ERROR left: from every such state dispose() still cancels the producer, unless the
            # ERROR branch itself did
            inter_h, role_h = m.role(h)
            if role_h == 'requester':
                bad2 = None
                n2 = 0
                for en in m.entries(h):
                    if en.kind != 'frame' or 'ErrorFrame' not in en.name:
                        continue
                    for p1 in m.run(en, pre0):
                        if p1.outcome != 'return':
                            continue
                        post = dict(pre0)
                        post.update(m.post_state(p1))
                        for p2 in m.run(ens[0], post):
                            if p2.outcome != 'return':
                                continue
                            n2 += 1
                            none_shown = any(e.kind == 'cond' and e.data['key'][0] == 'isnone' and
                                             e.data['value'] is True for e in p2.events)
                            if not (m.producer_cancelled(p1) or m.producer_cancelled(p2) or none_shown):
                                bad2 = post
                if n2 == 0:
                    raise AnalysisError('C11.c: no ERROR-then-dispose sequence explored for %s' % h.name)
                rep.add('C11.c', '%s / synthetic ERROR then dispose() cancels the producer' % h.name, d, bad2 is None,
                        'from every state the ERROR branch leaves, dispose() cancels the producer (%d sequences)' % n2
                        if bad2 is None else
                        'in the state the close sequence\'s ERROR leaves (%s) dispose() returns without cancelling the '
                        'local publisher: it keeps producing for a connection that is gone' % (
                            '{' + ', '.join('%s=%s' % kv for kv in sorted(bad2.items())) + '}'))
            # ... whatever the application's call-backs do on the way: a call-out that raises before the producer is
            # cancelled leaves dispose() with the producer still running (stop_all_streams only logs the exception)
            bad = None
            n_exc = 0
            for p in m.run(ens[0], pre0, exc=('app',)):
                if p.outcome != 'raise':
                    continue
                app_raise = [e for e in p.events if e.kind == 'raise' and e.data.get('implicit') == 'app']
                if not app_raise:
                    continue
                n_exc += 1
                none_shown = any(e.kind == 'cond' and e.data['key'][0] == 'isnone' and e.data['value'] is True
                                 for e in p.events)
                src = [e for e in p.events if e.seq == app_raise[0].data.get('call')]
                # the raising call-out being the producer's own cancel() is the producer's business
                if src and src[0].data.get('name') == 'cancel':
                    continue
                if not m.producer_cancelled(p) and not none_shown:
                    bad = (src[0].data.get('name') if src else '?', app_raise[0].line)
            rep.add('C11.c', '%s.dispose / the producer is cancelled before any call-out that can fail' % h.name, d,
                    bad is None,
                    'no application call-out precedes the cancellation (%d exception paths)' % n_exc if bad is None else
                    'dispose() calls %s() (line %s) before it cancels the producer: if that call-back raises, the '
                    'publisher keeps producing after the connection is gone' % bad)
    # the synthetic frame carries CONNECTION_ERROR
    g = ctx.repo.func('rsocket.rsocket_base:RSocketBase._on_connection_closed')
    codes = set()
    for p in ctx.paths(g, slots.RSocketClient, no_inline={'frame_received', 'dispose', '_stop_tasks',
                                                           '_fail_unsent_frames'}):
        for e in p.events:
            if e.kind == 'store' and e.data['target'][0] == 'attr' and e.data['target'][2] == 'error_code' and \
                    e.func.cls is not None and e.func.cls.is_subclass_of(slots.StreamControl):
                v = e.data['value'].term
                codes.add(v[2] if v[0] == 'enum' else fmt_term(v))
    if not codes:
        raise AnalysisError('C11.c: the close sequence does not build a synthetic error frame')
    ok = codes == {'CONNECTION_ERROR'}
    rep.add('C11.c', 'RSocketBase._on_connection_closed / synthetic error code', g, ok,
            'pending requests are failed with CONNECTION_ERROR' if ok else
            'pending requests are failed with %s instead of CONNECTION_ERROR' % sorted(codes))


def _call_sites(ctx, name, attr_call=True):
    out = []
    for f in ctx.repo.all_functions():
        if not f.module.name.startswith('rsocket') or f.module.name.startswith('rsocket.cli'):
            continue
        for n in walk_local(f.node):
            if isinstance(n, ast.Call) and isinstance(n.func, ast.Attribute) and n.func.attr == name:
                out.append((f, n))
    return out


def rule_d(ctx):
    rep = ctx.report
    slots = ctx.slots
    sites = _call_sites(ctx, '_on_connection_closed')
    ok = len(sites) == 1 and sites[0][0].name == '_receiver'
    rep.add('C11.d', 'close sequence / single caller', sites[0][0] if sites else slots.RSocketBase, ok,
            'the close sequence is entered from the receiver only' if ok else
            'the close sequence is entered from %s' % [s[0].short for s in sites])
    # on_close call sites on a RequestHandler-typed receiver inside the socket classes / handlers adapters excluded
    oc = [(f, n) for f, n in _call_sites(ctx, 'on_close')
          if f.cls is not None and f.cls.is_subclass_of(slots.RSocketBase)]
    ok = len(oc) == 1 and oc[0][0].name == '_on_connection_closed'
    rep.add('C11.d', 'on_close / single call site', oc[0][0] if oc else slots.RSocketBase, ok,
            'on_close is called at one site, inside the close sequence' if ok else
            'on_close is called from %s' % [s[0].short for s in oc])
    # the receiver is spawned at one site
    spawns = []
    for f in slots.RSocketBase.methods.values():
        for n in walk_local(f.node):
            if isinstance(n, ast.Attribute) and n.attr == '_receiver' and isinstance(n.ctx, ast.Load):
                spawns.append((f, n))
    for c in ctx.repo.subclasses(slots.RSocketBase):
        for f in c.methods.values():
            for n in walk_local(f.node):
                if isinstance(n, ast.Attribute) and n.attr == '_receiver' and isinstance(n.ctx, ast.Load):
                    spawns.append((f, n))
    ok = len(spawns) == 1
    rep.add('C11.d', 'receiver task / single spawn site', spawns[0][0] if spawns else slots.RSocketBase, ok,
            'the receiver coroutine is referenced (spawned) at one site: %s' % spawns[0][0].short if ok else
            'the receiver coroutine is referenced at %d sites' % len(spawns))


def _task_attrs(ctx, cls):
    """Attributes of cls (own methods) that are assigned a task: create_task(...) or a helper returning one."""
    out = {}
    spawners = {'create_task', 'ensure_future', '_start_task_if_not_closing'}
    for f in cls.methods.values():
        for n in walk_local(f.node):
            if isinstance(n, ast.Assign) and isinstance(n.value, ast.Call):
                fn = n.value.func
                name = fn.attr if isinstance(fn, ast.Attribute) else (fn.id if isinstance(fn, ast.Name) else None)
                if name in spawners:
                    for t in n.targets:
                        if isinstance(t, ast.Attribute) and isinstance(t.value, ast.Name) and t.value.id == 'self':
                            out.setdefault(t.attr, (f, n))
    return out


def _reachable_methods(cls, start, max_depth=6):
    seen = []
    work = [(cls.lookup(start), 0)]
    while work:
        f, d = work.pop()
        if f is None or f in seen or d > max_depth:
            continue
        seen.append(f)
        for n in walk_local(f.node):
            if isinstance(n, ast.Call) and isinstance(n.func, ast.Attribute):
                v = n.func.value
                if isinstance(v, ast.Name) and v.id == 'self':
                    work.append((cls.lookup(n.func.attr), d + 1))
                elif isinstance(v, ast.Call) and isinstance(v.func, ast.Name) and v.func.id == 'super':
                    t = cls.lookup_after(f.cls, n.func.attr) if f.cls in cls.mro() else None
                    work.append((t, d + 1))
    return seen


def _kills(f):
    """Attributes X for which f contains cancel_if_task_exists(self.X) or self.X.cancel() - also through a local
    that was given the attribute's value (`t = self.X` / `t, self.X = self.X, None`)."""
    out = set()
    alias = {}
    for n in walk_local(f.node):
        if isinstance(n, ast.Assign) and len(n.targets) == 1:
            tg, val = n.targets[0], n.value
            pairs = []
            if isinstance(tg, ast.Name):
                pairs = [(tg, val)]
            elif isinstance(tg, ast.Tuple) and isinstance(val, ast.Tuple) and len(tg.elts) == len(val.elts):
                pairs = list(zip(tg.elts, val.elts))
            for t_, v_ in pairs:
                if isinstance(t_, ast.Name) and isinstance(v_, ast.Attribute) and isinstance(v_.value, ast.Name) and \
                        v_.value.id == 'self':
                    alias[t_.id] = v_.attr
    for n in walk_local(f.node):
        if isinstance(n, ast.Call):
            fn = n.func
            if isinstance(fn, ast.Name) and fn.id == 'cancel_if_task_exists' and n.args:
                a = n.args[0]
                if isinstance(a, ast.Attribute) and isinstance(a.value, ast.Name) and a.value.id == 'self':
                    out.add(a.attr)
                elif isinstance(a, ast.Name):
                    out.add(alias.get(a.id, 'local:' + a.id))
            if isinstance(fn, ast.Attribute) and fn.attr == 'cancel':
                a = fn.value
                if isinstance(a, ast.Attribute) and isinstance(a.value, ast.Name) and a.value.id == 'self':
                    out.add(a.attr)
                elif isinstance(a, ast.Name):
                    out.add(alias.get(a.id, 'local:' + a.id))
    return out


def _task_coroutines(cls, attrs):
    """attribute -> name of the method whose coroutine the task runs (from the spawn site)"""
    out = {}
    for a, (f, n) in attrs.items():
        for x in ast.walk(n.value):
            if isinstance(x, ast.Attribute) and isinstance(x.value, ast.Name) and x.value.id == 'self' and \
                    cls.lookup(x.attr) is not None and cls.lookup(x.attr).is_async:
                out[a] = x.attr
    return out


def _kills_on_cancel(cls, method_name):
    """What a task running cls.<method> cancels when it is itself cancelled: kills in its finally blocks and
    CancelledError handlers, including the methods called from there."""
    f = cls.lookup(method_name)
    out = set()
    if f is None:
        return out
    blocks = []
    for t in walk_local(f.node):
        if isinstance(t, ast.Try):
            blocks.extend(t.finalbody)
            for h in t.handlers:
                if h.type is None or 'Cancel' in ast.unparse(h.type) or 'BaseException' in ast.unparse(h.type):
                    blocks.extend(h.body)
    holder = ast.Module(body=blocks, type_ignores=[])

    class _F:
        node = holder
    out |= _kills(_F)
    for n in ast.walk(holder):
        if isinstance(n, ast.Call) and isinstance(n.func, ast.Attribute) and isinstance(n.func.value, ast.Name) and \
                n.func.value.id == 'self' and cls.lookup(n.func.attr) is not None:
            for g in _reachable_methods(cls, n.func.attr):
                out |= _kills(g)
    return out


def _close_transitively(cls, attrs, killed):
    """cancelling a task runs its finally blocks: add what those cancel, to a fixpoint"""
    coro = _task_coroutines(cls, attrs)
    killed = set(killed)
    changed = True
    while changed:
        changed = False
        for a in list(killed):
            if a in coro:
                more = _kills_on_cancel(cls, coro[a]) - killed
                if more:
                    killed |= more
                    changed = True
    return killed


def rule_e(ctx):
    rep = ctx.report
    slots = ctx.slots
    total = 0
    for cls in _socket_classes(ctx):
        attrs = {}
        for k in cls.mro():
            if k.is_subclass_of(slots.RSocketBase):
                for a, site in _task_attrs(ctx, k).items():
                    attrs.setdefault(a, site)
        killed_on_close = set()
        for f in _reachable_methods(cls, 'close'):
            killed_on_close |= _kills(f)
        killed_on_loss = set()
        for f in _reachable_methods(cls, '_on_connection_closed'):
            killed_on_loss |= _kills(f)
        killed_on_close = _close_transitively(cls, attrs, killed_on_close)
        killed_on_loss = _close_transitively(cls, attrs, killed_on_loss)
        for a, (f, n) in sorted(attrs.items()):
            total += 1
            ok = a in killed_on_close
            rep.add('C11.e', '%s.%s / cancelled by close()' % (cls.name, a), (f.file, n.lineno), ok,
                    'the task stored in self.%s is cancelled on the close() path' % a if ok else
                    'the task stored in self.%s (spawned in %s) is never cancelled on the close() path' % (a, f.short))
            if a not in ('_reconnect_task',):
                ok2 = a in killed_on_loss
                rep.add('C11.e', '%s.%s / cancelled when the connection is lost' % (cls.name, a), (f.file, n.lineno),
                        ok2, 'cancelled by the close sequence that follows the receiver exit' if ok2 else
                        'the task stored in self.%s keeps running after the connection was lost' % a)
    rep.require('C11.e', 'task attributes of the socket classes', total, 5)
    # the helper every one of those cancellations goes through contains whatever the cancelled task raises while it
    # unwinds: otherwise the first failing task would keep _stop_tasks from reaching the others
    from .msgtransports import escaping_exits
    helper = ctx.repo.func('rsocket.helpers:cancel_if_task_exists')
    esc = escaping_exits(helper)
    awaits = [n for n in walk_local(helper.node) if isinstance(n, ast.Await)]
    if not awaits:
        raise AnalysisError('C11.e: cancel_if_task_exists awaits nothing')
    rep.add('C11.e', 'cancel_if_task_exists / what the cancelled task raises is contained', helper, not esc,
            'the awaited task\'s CancelledError and any other exception are handled inside the helper' if not esc else
            'an %s out of the awaited task escapes the helper: the caller\'s remaining cancellations are skipped' %
            ' / '.join(esc))
    # ... and it does cancel: for a task that exists and is not done, cancel() and then the await of that very task;
    # for no task / a finished task, nothing
    tparam = helper.params()[0]
    tk = ('param', helper.qualname, tparam)
    okc, detailc = True, ''
    n_cancel = 0
    for p in ctx.paths(helper, None, inline_depth=0, symbolic_compare=True):
        facts = {}
        for e in p.events:
            if e.kind != 'cond':
                continue
            k = strip_epoch(e.data['key'])
            v = bool(e.data['value'])
            if k[0] == 'isnone' and k[1] == tk:
                facts['none'] = v
            elif k[0] == 'truth' and isinstance(k[1], tuple) and k[1][0] in ('call', 'pure') and k[1][1] == 'done':
                facts['done'] = v
            elif k[0] == 'not' and isinstance(k[1], tuple) and k[1][0] in ('call', 'pure') and k[1][1] == 'done':
                facts['done'] = not v
        cancels = [e for e in p.events if e.kind == 'call' and e.data.get('name') == 'cancel' and
                   e.data.get('recv') is not None and strip_epoch(e.data['recv'].term) == tk]
        waits = [e for e in p.events if e.kind == 'await' and e.data.get('what') is not None and
                 strip_epoch(e.data['what'].term) == tk]
        live = facts.get('none') is False and facts.get('done') is False
        if live:
            n_cancel += 1
            if len(cancels) != 1:
                okc, detailc = False, 'a task that exists and is not done is cancelled %d times' % len(cancels)
            elif not [w for w in waits if w.seq > cancels[0].seq]:
                okc, detailc = False, 'the cancelled task is not awaited: the caller goes on while it still runs'
        elif cancels:
            if facts.get('none') is True:
                okc, detailc = False, 'cancel() is called on None'
    rep.add('C11.e', 'cancel_if_task_exists / cancels and awaits a task that exists and is not done', helper,
            okc and n_cancel > 0, detailc or 'task.cancel() then await task on the %d paths with a live task' % n_cancel
            if okc and n_cancel else detailc or 'no path cancels a live task')
    # tasks kept in local variables are cancelled in a finally of the same function
    for cls in _socket_classes(ctx):
        for k in cls.mro():
            if not k.is_subclass_of(slots.RSocketBase):
                continue
            for f in k.methods.values():
                for n in walk_local(f.node):
                    if isinstance(n, ast.Assign) and isinstance(n.value, ast.Call) and len(n.targets) == 1 and \
                            isinstance(n.targets[0], ast.Name):
                        fn = n.value.func
                        name = fn.attr if isinstance(fn, ast.Attribute) else (fn.id if isinstance(fn, ast.Name) else '')
                        if name in ('create_task', '_start_task_if_not_closing'):
                            var = n.targets[0].id
                            if any(isinstance(r, ast.Return) and isinstance(r.value, ast.Name) and r.value.id == var
                                   for r in walk_local(f.node)):
                                continue  # handed to the caller, who owns (and stores) it
                            in_finally = False
                            for t in walk_local(f.node):
                                if isinstance(t, ast.Try) and t.finalbody:
                                    for x in t.finalbody:
                                        for y in ast.walk(x):
                                            if isinstance(y, ast.Call) and any(
                                                    isinstance(a, ast.Name) and a.id == var for a in y.args) and \
                                                    'cancel' in ast.unparse(y.func):
                                                in_finally = True
                                            # <task>.cancel(): cancelled without being waited for
                                            if isinstance(y, ast.Call) and isinstance(y.func, ast.Attribute) and \
                                                    y.func.attr == 'cancel' and isinstance(y.func.value, ast.Name) and \
                                                    y.func.value.id == var:
                                                in_finally = True
                            rep.add('C11.e', '%s / local task %s cancelled in finally' % (f.short, var),
                                    (f.file, n.lineno), in_finally,
                                    'cancelled in a finally block of the function that spawned it' if in_finally else
                                    'task held in local %s is not cancelled when %s ends' % (var, f.short))


ANCHORED_TRANSPORTS = ('rsocket.transports.tcp:TransportTCP',
                       'rsocket.transports.abstract_messaging:AbstractMessagingTransport')
STDLIB_WAITS = {'wait', 'get', 'sleep'}


def rule_f(ctx):
    rep = ctx.report
    slots = ctx.slots
    n_sites = 0
    for c in [slots.Transport] + ctx.repo.subclasses(slots.Transport):
        anchored = c.qualname in ANCHORED_TRANSPORTS
        for mname in ('send_frame', 'next_frame_generator', 'on_send_queue_empty'):
            if mname not in c.methods:
                continue
            # follow self-calls inside the class
            funcs = _reachable_methods(c, mname, 3)
            for f in funcs:
                if f.cls is None or not (f.cls is c or c.is_subclass_of(f.cls)):
                    continue
                for aw, wrapped in _awaits_with_wrapping(f):
                    call = aw.value
                    if not isinstance(call, ast.Call):
                        continue
                    fn = call.func
                    name = fn.attr if isinstance(fn, ast.Attribute) else (fn.id if isinstance(fn, ast.Name) else '')
                    recv = fn.value if isinstance(fn, ast.Attribute) else None
                    if isinstance(recv, ast.Name) and recv.id == 'self':
                        continue  # a self-call: followed
                    if name in STDLIB_WAITS:
                        continue  # asyncio.Event.wait / Queue.get / sleep do not fail with transport errors
                    construct = '%s.%s / await %s' % (c.name, f.name, ast.unparse(fn))
                    if anchored:
                        n_sites += 1
                        rep.add('C11.f', construct, (f.file, aw.lineno), wrapped,
                                'inside wrap_transport_exception()' if wrapped else
                                'a failure of this await surfaces as a raw exception, not RSocketTransportError: the '
                                'sender/receiver treat it as an unknown error instead of a lost connection')
                    elif not wrapped:
                        rep.note('C11.f (information, transport outside the anchors): %s at %s:%s is not wrapped' % (
                            construct, f.file, aw.lineno))
    rep.require('C11.f', 'awaits on stream objects in the anchored transports', n_sites, 3)
    # failure markers queued by producers of messaging transports are RSocketTransportError instances
    amt = ctx.repo.cls(ANCHORED_TRANSPORTS[1])
    nfg = amt.methods.get('next_frame_generator')
    if nfg is None:
        raise AnalysisError('C11.f: AbstractMessagingTransport.next_frame_generator vanished')
    reraises = any(isinstance(n, ast.Raise) for n in walk_local(nfg.node))
    rep.add('C11.f', 'AbstractMessagingTransport.next_frame_generator / queued failure is re-raised', nfg, reraises,
            'an exception object taken from the incoming queue is raised to the receiver' if reraises else
            'an exception object taken from the incoming queue is not raised')


def _awaits_with_wrapping(f):
    """(await node, inside `with wrap_transport_exception()`?) for every await in f."""
    out = []

    def visit(node, wrapped):
        if isinstance(node, (ast.FunctionDef, ast.AsyncFunctionDef, ast.Lambda, ast.ClassDef)) and node is not f.node:
            return
        if isinstance(node, (ast.With, ast.AsyncWith)):
            w = wrapped or any('wrap_transport_exception' in ast.unparse(i.context_expr) for i in node.items)
            for i in node.items:
                visit(i.context_expr, wrapped)
            for s in node.body:
                visit(s, w)
            return
        if isinstance(node, ast.Try):
            # an except clause that converts to RSocketTransportError counts as wrapping
            conv = False
            for h in node.handlers:
                for s in ast.walk(h):
                    if isinstance(s, ast.Raise) and s.exc is not None and 'RSocketTransportError' in ast.unparse(s.exc):
                        if h.type is None or ast.unparse(h.type) in ('Exception', 'BaseException'):
                            conv = True
            for s in node.body:
                visit(s, wrapped or conv)
            for h in node.handlers:
                for s in h.body:
                    visit(s, wrapped)
            for s in node.orelse + node.finalbody:
                visit(s, wrapped)
            return
        if isinstance(node, ast.Await):
            out.append((node, wrapped))
        for ch in ast.iter_child_nodes(node):
            visit(ch, wrapped)

    for s in f.node.body:
        visit(s, False)
    return out


def rule_g(ctx):
    rep = ctx.report
    slots = ctx.slots
    # (i) the close sequence drains both queues and settles the sent future of every element
    g = ctx.repo.func('rsocket.rsocket_base:RSocketBase._on_connection_closed')
    for cls in _socket_classes(ctx):
        paths = ctx.paths(g, cls, no_inline={'stop_all_streams', '_stop_tasks', 'on_close'})
        normal = [p for p in paths if p.outcome == 'return']
        if not normal:
            raise AnalysisError('C11.g: no normal path through the close sequence')
        for qattr, what in ((slots.send_queue_attr, 'send queue'), (slots.request_queue_attr, 'lease hold queue')):
            drained_everywhere = True
            settled = True
            for p in normal:
                deq = [e for e in p.events if e.kind == 'call' and e.data.get('name') in ('get_nowait', 'get') and
                       _queue_of(p, e) == qattr]
                emptied = any(e.kind == 'cond' and 'empty' in repr(e.data['key']) and qattr in repr(e.data['key'])
                              for e in p.events) or any(
                    e.kind == 'call' and e.data.get('name') == 'empty' and _queue_of(p, e) == qattr
                    for e in p.events)
                if not emptied:
                    drained_everywhere = False
                for d in deq:
                    val = d.data['value'].term
                    res = [e for e in p.events if is_resolve(e) and e.seq > d.seq and
                           _mentions(e.data['recv'].term, val)]
                    canc = [e for e in p.events if is_cancel_call(e) and e.seq > d.seq and
                            _mentions(e.data['recv'].term, val)]
                    none_or_done = [e for e in p.events if e.kind == 'cond' and e.seq > d.seq and
                                    _mentions(e.data['key'], val) and (
                                            (e.data['key'][0] == 'isnone' and e.data['value'] is True) or
                                            ('done' in repr(e.data['key']) and e.data['value'] is True))]
                    if not res and not canc and not none_or_done:
                        settled = False
            ok = drained_everywhere and settled
            rep.add('C11.g', '%s close sequence / %s drained and settled' % (cls.name, what), g, ok,
                    'every frame left in the %s has its sent future failed (or has none) on all %d paths' % (
                        what, len(normal)) if ok else
                    ('the close sequence does not empty the %s: awaitables of frames that were never written stay '
                     'pending' % what if not drained_everywhere else
                     'a frame taken from the %s keeps a pending sent future' % what))
    # (ii) in the sender, every edge out of the write settles the sent future of the frame in flight
    s = ctx.repo.func('rsocket.rsocket_base:RSocketBase._sender')
    for cls in _socket_classes(ctx):
        paths = ctx.paths(s, cls, exc=('app', 'cancel', 'transport'), inline_depth=2,
                          no_inline={'_before_sender', '_finally_sender', 'is_server_alive', '_current_transport',
                                     '_log_identifier'})
        by_edge = {}
        for p in paths:
            sends = [e for e in p.events if e.kind == 'call' and e.data.get('name') == 'send_frame' and
                     e.data.get('how') in ('app', 'unknown', 'atomic_repo') and e.func.name == '_sender']
            if not sends:
                continue
            ev = sends[0]
            frame = ev.data['args'][0].term if ev.data.get('args') else None
            nxt = [e for e in p.events if e.seq > ev.seq and e.kind == 'raise' and e.data.get('implicit')]
            edge = 'normal'
            if nxt and not any(e.kind == 'call' and e.seq > ev.seq and e.seq < nxt[0].seq for e in p.events):
                edge = nxt[0].data['implicit']
            settle = any((is_resolve(e) or is_cancel_call(e)) and e.seq > ev.seq and
                         _mentions(e.data['recv'].term, frame) for e in p.events)
            absent = any(e.kind == 'cond' and e.seq > ev.seq and _mentions(e.data['key'], frame) and (
                    (e.data['key'][0] == 'isnone' and e.data['value'] is True) or
                    ('done' in repr(e.data['key']) and e.data['value'] is True)) for e in p.events)
            by_edge.setdefault(edge, []).append(settle or absent)
        for edge in ('normal', 'app', 'cancel', 'transport'):
            if edge not in by_edge:
                raise AnalysisError('C11.g: no %s edge out of transport.send_frame in %s._sender' % (edge, cls.name))
            ok = all(by_edge[edge])
            rep.add('C11.g', '%s._sender / write ends by %s' % (cls.name, edge), s, ok,
                    'the sent future of the frame in flight is settled (or absent) on all %d paths' % len(
                        by_edge[edge]) if ok else
                    'when the write ends by %s the sent future of the frame in flight stays pending' % edge)


def _queue_of(p, e):
    r = e.data.get('recv')
    if r is None:
        return None
    t = strip_epoch(r.term)
    if t[0] == 'attr':
        return t[2]
    if t[0] == 'elem':
        # element of a tuple of queues: (self._send_queue, self._request_queue)
        return repr(t)
    return None


def _mentions(term, sub) -> bool:
    sub = strip_epoch(sub)
    t = strip_epoch(term)
    if t == sub:
        return True
    if isinstance(t, tuple):
        return any(_mentions(x, sub) for x in t if isinstance(x, tuple))
    return False


def rule_h(ctx, rule='C11.h'):
    """The client's reconnect listener is the last thing that runs when the application closes the client; requests
    issued after the connection was lost (no receiver left to fail them) are failed only here."""
    rep = ctx.report
    slots = ctx.slots
    f = slots.RSocketClient.lookup('_reconnect_listener')
    if f is None:
        raise AnalysisError('%s: RSocketClient._reconnect_listener vanished' % rule)
    ps = ctx.paths(f, slots.RSocketClient, exc=('app', 'cancel', 'transport'),
                   no_inline={'_close', 'connect', 'stop_all_streams', 'wait', 'clear'}, max_paths=4000)
    by = {}
    for p in ps:
        if p.outcome == 'cut':
            continue
        raises = [e for e in p.events if e.kind == 'raise' and e.data.get('implicit')]
        how = raises[0].data['implicit'] if raises else 'normal'
        stops = [e for e in p.events if e.kind == 'call' and e.data.get('name') == 'stop_all_streams' and
                 (not raises or e.seq > raises[0].seq)]
        by.setdefault(how, []).append(bool(stops))
    if 'cancel' not in by:
        raise AnalysisError('%s: no path where the reconnect listener is cancelled' % rule)
    for how in sorted(by):
        ok = all(by[how])
        rep.add(rule, 'RSocketClient._reconnect_listener / ends by %s' % how, f, ok,
                'every stream still registered is failed (stop_all_streams) on all %d such paths' % len(by[how])
                if ok else 'the listener can end by %s without failing the streams still registered: a request issued '
                           'on a client whose connection was lost stays pending after close()' % how)
    # close() reaches the listener: the task attribute holding it is cancelled when not reconnecting
    cl = slots.RSocketClient.lookup('_close')
    ok = False
    if cl is not None:
        for q in ctx.paths(cl, slots.RSocketClient, args={'reconnect': const(False)}, inline_depth=1,
                           no_inline={'close'}):
            for e in q.events:
                if e.kind == 'call' and e.data.get('name') in ('cancel_if_task_exists', 'cancel') and \
                        '_reconnect_task' in repr([a.term for a in e.data.get('args', [])] +
                                                  [e.data['recv'].term if e.data.get('recv') is not None else None]):
                    ok = True
    rep.add(rule, 'RSocketClient.close / cancels the reconnect listener', cl or f, ok,
            'close() cancels the listener task, whose exit fails the registered streams' if ok else
            'close() does not cancel the reconnect listener')


def rule_i(ctx, rule='C11.i'):
    """Cancellation ends the long-running tasks: a CancelledError delivered at any await inside the sender or the
    keepalive loops leaves the loop for good (it may be logged and swallowed at the outermost level, but no further
    iteration, write or sleep follows) - otherwise close() waits for a task that keeps sending."""
    rep = ctx.report
    slots = ctx.slots
    C = slots.RSocketClient
    specs = [(slots.RSocketBase.lookup('_sender'), {'_finally_sender'},
              {'_before_sender', '_finally_sender', 'is_server_alive', '_current_transport', '_log_identifier',
               '_get_next_frame_to_send', '_fail_sent_future'}),
             (C.lookup('_keepalive_send_task'), set(), {'_send_new_keepalive', '_log_identifier'}),
             (C.lookup('_keepalive_timeout_task'), set(), {'_log_identifier'})]
    for f, allowed, noinl in specs:
        if f is None:
            raise AnalysisError('%s: a task coroutine vanished' % rule)
        ps = ctx.paths(f, C, exc=('cancel',), inline_depth=1, no_inline=noinl, max_paths=4000)
        ok = True
        why = ''
        n = 0
        for p in ps:
            canc = [e for e in p.events if e.kind == 'raise' and e.data.get('implicit') == 'cancel']
            if not canc:
                continue
            n += 1
            after = [e for e in p.events if e.seq > canc[0].seq]
            again = [e for e in after if (e.kind == 'loop' and e.data.get('phase') in ('back', 'enter')) or
                     (e.kind == 'call' and e.data.get('awaited') and e.data.get('name') not in allowed) or
                     e.kind == 'await' and not any(c.kind == 'call' and c.data.get('awaited') and
                                                   c.data.get('name') in allowed and c.seq < e.seq and
                                                   c.seq > canc[0].seq for c in after)]
            if again:
                ok, why = False, ('after a cancellation at line %s the task goes on (line %s): the CancelledError is '
                                  'swallowed inside the loop' % (canc[0].line, again[0].line))
        if n == 0:
            raise AnalysisError('%s: no cancellation edge in %s' % (rule, f.short))
        rep.add(rule, '%s / cancellation ends the task' % f.short, f, ok,
                why or 'no iteration, write or sleep after a cancellation on %d paths' % n)


def rule_wrap(ctx, rule='C11.f'):
    """wrap_transport_exception turns whatever the transport raises into RSocketTransportError (what the receiver and
    the sender treat as loss of the connection)."""
    rep = ctx.report
    m = ctx.repo.module('rsocket.helpers')
    fs = m.functions.get('wrap_transport_exception')
    if not fs:
        raise AnalysisError('%s: wrap_transport_exception vanished' % rule)
    f = fs[-1]
    ok = False
    for t in walk_local(f.node):
        if isinstance(t, ast.Try) and any(isinstance(x, (ast.Yield, ast.Expr)) and
                                          any(isinstance(y, ast.Yield) for y in ast.walk(x)) for x in t.body):
            for h in t.handlers:
                if h.type is None or ast.unparse(h.type).split('.')[-1] in ('Exception', 'BaseException'):
                    raises = [r for r in ast.walk(h) if isinstance(r, ast.Raise) and r.exc is not None and
                              'RSocketTransportError' in ast.unparse(r.exc)]
                    # every way through the handler ends in that raise
                    last = h.body[-1] if h.body else None
                    if raises and isinstance(last, ast.Raise) and last in raises:
                        ok = True
    rep.add(rule, 'wrap_transport_exception / any exception becomes RSocketTransportError', f, ok,
            'except Exception: raise RSocketTransportError' if ok else
            'an exception raised inside the wrapped block is not converted into RSocketTransportError: the receiver / '
            'sender do not recognise it as loss of the connection')


def _group_close_sites(fn):
    """(call node, iterated expression, how) for every `<element>.close()` whose receiver is the variable of a loop or
    comprehension inside `fn`."""
    out = []
    for n in walk_local(fn.node):
        gens = []
        if isinstance(n, (ast.ListComp, ast.SetComp, ast.GeneratorExp)):
            gens = [(g.target, g.iter, g.ifs, n.elt, 'comprehension') for g in n.generators]
        elif isinstance(n, (ast.For, ast.AsyncFor)):
            gens = [(n.target, n.iter, [], n, 'loop')]
        for target, it, ifs, body, how in gens:
            if not isinstance(target, ast.Name):
                continue
            nodes = ast.walk(body) if how == 'comprehension' else (x for st in body.body for x in ast.walk(st))
            for c in nodes:
                if isinstance(c, ast.Call) and isinstance(c.func, ast.Attribute) and c.func.attr == 'close' and \
                        isinstance(c.func.value, ast.Name) and c.func.value.id == target.id:
                    out.append((c, it, ifs, n, how))
    return out


def rule_group_close(ctx, rule='C11.j'):
    """close() of a socket that stands for several connections (the load balancer strategies) closes every member,
    whatever the close() of another member does: a member that never connected raises from close(), and a sequential
    `await` would leave the members behind it open, their pending requests hanging and their keepalives running."""
    rep = ctx.report
    repo = ctx.repo
    strat = repo.cls('rsocket.load_balancer.load_balancer_strategy:LoadBalancerStrategy')
    impls = [k for k in repo.concrete_subclasses(strat, include_self=False)]
    if len(impls) < 2:
        raise AnalysisError('%s: expected two load balancer strategies, found %d' % (rule, len(impls)))
    for k in impls:
        cl = k.lookup('close')
        sel = k.lookup('select')
        if cl is None or sel is None:
            raise AnalysisError('%s: %s has no close/select' % (rule, k.name))
        # the collection the requests are routed over
        pools = {ast.unparse(n.value) for n in ast.walk(sel.node) if isinstance(n, ast.Subscript) and
                 ast.unparse(n.value).startswith('self.')}
        sites = _group_close_sites(cl)
        ok, detail = True, ''
        if not sites:
            ok, detail = False, 'close() closes no member of the pool'
        for call, it, ifs, holder, how in sites:
            if ast.unparse(it) not in pools:
                ok, detail = False, 'close() iterates %s, requests are routed over %s' % (
                    ast.unparse(it), ', '.join(sorted(pools)))
            if ifs:
                ok, detail = False, 'close() skips members (%s)' % ast.unparse(ifs[0])
            # failure isolation
            parents = {}
            for a in ast.walk(cl.node):
                for b in ast.iter_child_nodes(a):
                    parents[b] = a
            chain = []
            x = call
            while x in parents:
                x = parents[x]
                chain.append(x)
            direct_await = chain and isinstance(chain[0], ast.Await)
            gathered = [a for a in chain if isinstance(a, ast.Call) and
                        ast.unparse(a.func) in ('asyncio.gather', 'gather')]
            if direct_await:
                guarded = False
                for a in chain:
                    if a is holder:
                        break
                    if isinstance(a, ast.Try) and any(
                            h.type is None or ast.unparse(h.type) in ('Exception', 'BaseException')
                            for h in a.handlers):
                        guarded = True
                if how == 'comprehension' or not guarded:
                    ok, detail = False, 'members are closed one after the other with nothing containing a failure ' \
                                        '(line %d): the first close() that raises leaves the rest open' % call.lineno
            elif gathered:
                g = gathered[0]
                iso = any(kw.arg == 'return_exceptions' and isinstance(kw.value, ast.Constant) and
                          kw.value.value is True for kw in g.keywords)
                awaited = isinstance(parents.get(g), ast.Await)
                if not iso:
                    ok, detail = False, 'gather() without return_exceptions=True: the first failing close() ends ' \
                                        'the wait while others are still closing'
                if not awaited:
                    ok, detail = False, 'the gathered close() calls are not awaited'
            else:
                ok, detail = False, 'the member close() coroutines (line %d) are neither awaited nor gathered' % \
                    call.lineno
        # only the auto-close switch may guard it
        tests = [ast.unparse(n.test) for n in walk_local(cl.node) if isinstance(n, (ast.If, ast.IfExp))]
        if any(t not in ('self._auto_close',) for t in tests):
            ok, detail = False, 'close() is conditional on %s' % tests[0]
        rep.add(rule, '%s.close / every member closed, failures isolated' % k.name, cl, ok,
                detail or 'close() closes every member of %s; one member failing does not stop the others' %
                ', '.join(sorted(pools)))
    lb = repo.cls('rsocket.load_balancer.load_balancer_rsocket:LoadBalancerRSocket')
    for name in ('close', '__aexit__'):
        m = lb.lookup(name)
        if m is None:
            raise AnalysisError('%s: LoadBalancerRSocket.%s vanished' % (rule, name))
        aw = [n for n in walk_local(m.node) if isinstance(n, ast.Await) and isinstance(n.value, ast.Call) and
              ast.unparse(n.value.func) == 'self._strategy.close']
        cond = [n for n in walk_local(m.node) if isinstance(n, (ast.If, ast.Try, ast.Return)) and
                n.lineno < (aw[0].lineno if aw else 10 ** 9)]
        rep.add(rule, 'LoadBalancerRSocket.%s / closes the strategy' % name, m, bool(aw) and not cond,
                'awaits strategy.close() unconditionally' if aw and not cond else
                'does not (unconditionally) await strategy.close()')


def rule_k(ctx):
    """The message transports tell the receiver when their connection ends (rules/msgtransports.py)."""
    from .msgtransports import rule_connection_end_signalled
    rule_connection_end_signalled(ctx, 'C11.k')


def rule_l(ctx):
    """close() through the awaitable adapter really closes: the coroutine of the wrapped socket's close() (and of
    connect / __aenter__ / __aexit__) is awaited or handed to the caller (rules/awaitable.py)."""
    from .awaitable import rule_delegations
    rule_delegations(ctx, 'C11.l')


def rule_m(ctx, rule='C11.m'):
    """The request handlers the library itself provides (routing handler, Rx handler adapters) are awaited inline by
    the receiver task: a CancelledError delivered while one of their entry points is suspended - close() cancelling
    the receiver - must come back out of the entry point.  Swallowed there (a handler that catches BaseException and
    answers with an error), the receiver goes on reading and close() waits for it for ever."""
    rep = ctx.report
    repo = ctx.repo
    rh = repo.cls('rsocket.request_handler:RequestHandler')
    n_entries = 0
    for k in sorted(repo.concrete_subclasses(rh, include_self=False), key=lambda c: c.qualname):
        if not k.qualname.startswith('rsocket'):
            continue
        for name, m in sorted(k.methods.items()):
            if not m.is_async or name.startswith('_') or rh.lookup(name) is None:
                continue
            ps = ctx.paths(m, k, exc=('cancel',), inline_depth=2)
            n = 0
            swallowed = None
            for p in ps:
                canc = [e for e in p.events if e.kind == 'raise' and e.data.get('implicit') == 'cancel']
                if not canc:
                    continue
                n += 1
                if p.outcome != 'raise':
                    swallowed = canc[0]
            if n == 0:
                continue  # nothing awaited inside
            n_entries += 1
            rep.add(rule, '%s.%s / a cancellation comes back out' % (k.name, name), m, swallowed is None,
                    'a CancelledError raised at any of its awaits propagates to the receiver (%d paths)' % n
                    if swallowed is None else
                    'a CancelledError delivered at line %s is caught inside and the entry point returns normally: '
                    'the cancelled receiver goes on, close() hangs' % swallowed.line)
    rep.require(rule, 'suspending entry points of library request handlers', n_entries, 15)


def rule_plumbing(ctx):
    from . import plumbing
    plumbing.rule_fail_unsent(ctx, 'C11.g')
    plumbing.rule_close_transport(ctx, 'C11.e')
    plumbing.rule_sender_hooks(ctx, 'C11.e')



def rule_termination_event(ctx):
    """C11.k (QUIC)  every ConnectionTerminated event queues the end-of-connection marker (rules/msgtransports.py)."""
    from .msgtransports import rule_termination_event_signalled as r
    r(ctx, 'C11.k')



def rule_no_wait_cycle(ctx):
    """C11.n  close() may be called by application code at any moment - from any call-back the library awaits.  close()
    waits for the receiver (and the sender) to end.  A task whose end the receiver or the sender itself waits for
    (`await cancel_if_task_exists(task)` / `await task` on its way out) must therefore not be one that awaits an
    application call-back: that call-back may call close(), which waits for the receiver, which waits for the task
    the call-back runs in - neither ever finishes, no request is failed and on_close is never delivered.  Such a task
    is cancelled without being waited for (and has to notice by itself that its connection is over)."""
    rep = ctx.report
    slots = ctx.slots
    n = 0
    for cls in _socket_classes(ctx):
        for k in cls.mro():
            if not k.is_subclass_of(slots.RSocketBase):
                continue
            for f in k.methods.values():
                spawned = {}
                for x in walk_local(f.node):
                    if isinstance(x, ast.Assign) and len(x.targets) == 1 and isinstance(x.targets[0], ast.Name) and \
                            isinstance(x.value, ast.Call):
                        fn = x.value.func
                        name = fn.attr if isinstance(fn, ast.Attribute) else (fn.id if isinstance(fn, ast.Name) else '')
                        if name in ('create_task', '_start_task_if_not_closing', 'ensure_future') and x.value.args:
                            a = x.value.args[0]
                            if isinstance(a, ast.Call) and isinstance(a.func, ast.Name) and a.func.id == 'partial' and \
                                    a.args:
                                a = a.args[0]
                            if isinstance(a, ast.Lambda):
                                a = a.body
                            if isinstance(a, ast.Call):
                                a = a.func
                            if isinstance(a, ast.Attribute) and isinstance(a.value, ast.Name) and a.value.id == 'self':
                                spawned[x.targets[0].id] = a.attr
                for var, coro in spawned.items():
                    g = cls.lookup(coro)
                    if g is None:
                        continue
                    n += 1
                    waited = [y for y in walk_local(f.node) if isinstance(y, ast.Await) and (
                        isinstance(y.value, ast.Name) and y.value.id == var or
                        isinstance(y.value, ast.Call) and any(isinstance(a, ast.Name) and a.id == var
                                                              for a in y.value.args))]
                    callouts = [y for y in walk_local(g.node) if isinstance(y, ast.Await) and
                                isinstance(y.value, ast.Call) and isinstance(y.value.func, ast.Attribute) and
                                isinstance(y.value.func.value, ast.Attribute) and
                                y.value.func.value.attr in ('_handler', 'handler')]
                    bad = bool(waited) and bool(callouts)
                    rep.add('C11.n', '%s.%s / does not wait for a task that awaits application code (%s)' % (
                        cls.name, f.name, coro), f, not bad,
                        'the task running %s is %s' % (coro, 'cancelled without being waited for' if not waited else
                                                       'waited for; it awaits no application call-back') if not bad else
                        '%s waits for the task running %s, which awaits self._handler.%s(): a call-back that calls close() '
                        'waits for this function\'s task while this function waits for the call-back\'s task' % (
                            f.name, coro, callouts[0].value.func.attr))
    rep.require('C11.n', 'tasks spawned into a local by a socket method', n, 1)




def rule_close_does_not_wait_for_the_peer(ctx):
    """C11.o  close() fails what is pending whether or not the peer still reads.  The functions that run between
    close() being called and the close sequence - _stop_tasks, and _finally_sender, which runs in the cancelled
    sender while _stop_tasks waits for it - await nothing but the end of the library's own tasks: no transport write,
    flush or drain (`on_send_queue_empty` is `writer.drain()` on TCP, which blocks for as long as the peer does not read),
    no queue join, no sleep.  Otherwise close() hangs before a single pending request has been failed."""
    rep = ctx.report
    slots = ctx.slots
    BLOCKING = ('on_send_queue_empty', 'send_frame', 'drain', 'flush', 'join', 'sleep', 'wait', 'wait_for')
    n = 0
    for cls in _socket_classes(ctx):
        for k in cls.mro():
            if not k.is_subclass_of(slots.RSocketBase):
                continue
            for name in ('_finally_sender', '_stop_tasks'):
                f = k.methods.get(name)
                if f is None:
                    continue
                n += 1
                bad = [x for x in walk_local(f.node) if isinstance(x, ast.Await) and isinstance(x.value, ast.Call) and
                       isinstance(x.value.func, ast.Attribute) and x.value.func.attr in BLOCKING]
                rep.add('C11.o', '%s.%s / waits for the library\'s own tasks only' % (k.name, name), f, not bad,
                        'awaits: %s' % (', '.join(sorted({ast.unparse(x.value.func) for x in walk_local(f.node)
                                                           if isinstance(x, ast.Await) and
                                                           isinstance(x.value, ast.Call)})) or 'nothing')
                        if not bad else
                        'await %s(...) on the way from close() to the close sequence: with a peer that has stopped reading '
                        'this never returns, and nothing pending is failed' % ast.unparse(bad[0].value.func))
    rep.require('C11.o', 'sender clean-up hooks and task-stopping functions', n, 3)




def rule_wait_graph(ctx):
    """C11.p  the wait graph of the library's own tasks has no cycle (rules/waitgraph.py)."""
    from .waitgraph import rule_wait_graph as r
    r(ctx, 'C11.p')



def rule_drain_cannot_abort(ctx):
    """(shared C09.e)  The loops of the close sequence that fail the unsent frames settle each sent-future under an
    at-most-once guard: an awaitable the application has already cancelled (a wait_for timeout) would otherwise raise
    InvalidStateError in the middle of the drain, and every awaitable queued behind it would stay pending."""
    from .c07 import check_guarded_resolve
    check_guarded_resolve(ctx, 'C09.e', only_module={'rsocket.rsocket_base'})




def rule_transport_failures_are_transport_errors(ctx):
    """C11.q  Every way a transport can fail reaches the close sequence.  The receiver and the sender catch
    RSocketTransportError - and nothing else - as "the connection is gone"; any other exception leaves the receiver
    through `except Exception: raise`, past _on_connection_closed(): pending requests are not failed, on_close is not
    delivered.  So what the transport layer raises for a failed read or write is that class or a subclass of it: every
    `raise` in wrap_transport_exception and every explicit raise of a library exception in rsocket.transports.*
    names RSocketTransportError or a subclass (a sibling class such as RSocketTransportClosed is not caught)."""
    rep = ctx.report
    repo = ctx.repo
    base = repo.cls('rsocket.exceptions:RSocketTransportError')
    w = repo.module('rsocket.helpers').functions.get('wrap_transport_exception')
    if base is None or not w:
        raise AnalysisError('C11.q: RSocketTransportError / wrap_transport_exception vanished')
    fns = [w[-1]] + [f for f in repo.all_functions() if f.module.name.startswith('rsocket.transports')]
    n = 0
    bad = []
    for f in fns:
        for r in walk_local(f.node):
            if not isinstance(r, ast.Raise) or r.exc is None:
                continue
            e = r.exc.func if isinstance(r.exc, ast.Call) else r.exc
            if not isinstance(e, ast.Name):
                continue
            k = repo.resolve_name(f.module, e.id)
            if not isinstance(k, ClassInfo) or not k.module.name.startswith('rsocket.'):
                continue
            n += 1
            if not (k is base or k.is_subclass_of(base)):
                bad.append((f, r, k))
    # the wrapper has a catch-all that converts
    handlers = [h for t in walk_local(w[-1].node) if isinstance(t, ast.Try) for h in t.handlers]
    catch_all = any(h.type is None or ast.unparse(h.type) in ('Exception', 'BaseException') for h in handlers)
    rep.require('C11.q', 'raises of the transport layer', n, 2)
    for f, r, k in bad:
        rep.bad('C11.q', '%s / raises %s' % (f.short, k.name), f,
                'line %d: %s is not an RSocketTransportError: the receiver and the sender do not take it for the end '
                'of the connection, the close sequence does not run' % (r.lineno, k.name))
    rep.add('C11.q', 'wrap_transport_exception / every failure becomes a transport error', w[-1],
            catch_all and not [b for b in bad if b[0] is w[-1]],
            'every exception of the wrapped I/O is re-raised as RSocketTransportError (or a subclass)' if catch_all
            else 'the wrapper has no catch-all that converts')




def rule_transport_close_contained(ctx):
    """(shared C17.j)  close() of the socket returns normally: the transport's close() keeps the CancelledError of the
    feeder task it cancels to itself (rules/msgtransports.py)."""
    from .msgtransports import rule_close_contains_its_own_cancellation
    rule_close_contains_its_own_cancellation(ctx, 'C17.j')




def rule_only_the_close_sequence_notifies(ctx):
    """C11.r  The close notification is delivered once per endpoint because one place delivers it: every call of an
    `on_close` in the library is in the close sequence (_on_connection_closed) or in an `on_close` method that hands the
    notification on to its delegate.  A second source - another call-back of the handler that 'also closes', say - makes
    the count depend on how the connection ended: an attempt that fails during establishment reports the error and
    then runs the close sequence as well."""
    rep = ctx.report
    n = 0
    bad = []
    for f in ctx.repo.all_functions():
        if not f.module.name.startswith(('rsocket.', 'reactivestreams.')) or f.module.name.startswith('rsocket.cli'):
            continue
        for c in walk_local(f.node):
            if isinstance(c, ast.Call) and isinstance(c.func, ast.Attribute) and c.func.attr == 'on_close':
                n += 1
                if f.name not in ('_on_connection_closed', 'on_close'):
                    bad.append((f, c))
    rep.require('C11.r', 'calls of on_close in the library', n, 3)
    for f, c in bad:
        rep.bad('C11.r', '%s / calls on_close' % f.short, f,
                'line %d: on_close is also delivered from %s: an endpoint whose connection ends this way is notified '
                'here and again by the close sequence' % (c.lineno, f.name))
    if not bad:
        rep.ok('C11.r', 'on_close / delivered by the close sequence (and delegating on_close methods) only',
               ctx.repo.func('rsocket.rsocket_base:RSocketBase._on_connection_closed'), '%d call sites' % n)



RULES = [('C11.a', rule_a), ('C11.b', rule_b), ('C11.b', rule_b2), ('C11.c', rule_c), ('C11.d', rule_d), ('C11.e', rule_e),
         ('C11.f', rule_f), ('C11.g', rule_g), ('C11.h', rule_h), ('C11.i', rule_i), ('C11.f', rule_wrap), ('C11.g+C11.e', rule_plumbing), ('C11.j', rule_group_close), ('C11.k', rule_k), ('C11.l', rule_l), ('C11.m', rule_m), ('C11.k', rule_termination_event), ('C11.n', rule_no_wait_cycle), ('C11.o', rule_close_does_not_wait_for_the_peer), ('C11.p', rule_wait_graph), ('C09.e', rule_drain_cannot_abort), ('C11.q', rule_transport_failures_are_transport_errors), ('C17.j', rule_transport_close_contained), ('C11.r', rule_only_the_close_sequence_notifies)]
