"""Registry of checker-validation variants (see variants.py).  Break variants compile and are of the kind the
unedited test suite would plausibly not notice; twins are behaviour-preserving edits that must stay silent."""
from .variants import variant, variant_multi

H = 'rsocket/handlers/'

# ----------------------------------------------------------------------------------------------- C07 / C10
variant('b-ssreq-error-nofinish', ['C07', 'C10'], H + 'request_stream_requester.py',
        """            self._subscriber.on_error(error_frame_to_exception(frame))
            self._finish_stream()
""", """            self._subscriber.on_error(error_frame_to_exception(frame))
""", ('C', 'RequestStreamRequester.frame_received/ErrorFrame'))
variant('b-ssreq-complete-nofinish', ['C10', 'C07'], H + 'request_stream_requester.py',
        """            if frame.flags_complete:
                self._finish_stream()
""", """            if frame.flags_complete and frame.flags_next:
                self._finish_stream()
""", ('C', 'RequestStreamRequester.frame_received/PayloadFrame[complete,!next]'))
variant('b-rrreq-unguarded-result', ['C07'], H + 'request_response_requester.py',
        """            if not self._future.done():
                self._future.set_result(payload_from_frame(frame))
""", """            self._future.set_result(payload_from_frame(frame))
""", ('C07.a', 'set_result'))
variant('b-rrreq-cancelled-guard', ['C07'], H + 'request_response_requester.py',
        """            if not self._future.done():
                self._future.set_exception(error_frame_to_exception(frame))
""", """            if not self._future.cancelled():
                self._future.set_exception(error_frame_to_exception(frame))
""", ('C07.a', 'set_exception'), note='cancelled() does not exclude a result that is already set')
variant('b-channel-drop-guard-removed', ['C07'], H + 'request_cahnnel_common.py',
        """        elif self._received_complete and isinstance(frame, (PayloadFrame, ErrorFrame)):
            logger().debug('%s: Dropping frame received after termination', self.__class__.__name__)
""", "", ('C07.b', 'then ErrorFrame'))
variant('b-channel-drop-guard-payload-only', ['C07'], H + 'request_cahnnel_common.py',
        "elif self._received_complete and isinstance(frame, (PayloadFrame, ErrorFrame)):",
        "elif self._received_complete and isinstance(frame, PayloadFrame):", ('C07.b', 'then ErrorFrame'))
variant('b-ssreq-request-before-subscribe', ['C07'], H + 'request_stream_requester.py',
        """        super().subscribe(subscriber)
        self._send_stream_request(self.payload)
""", """        self._send_stream_request(self.payload)
        super().subscribe(subscriber)
""", ('C07.c', 'RequestStreamRequester.subscribe'))
variant('b-stopall-live-iteration', ['C07'], 'rsocket/stream_control.py',
        "for stream_id, stream in list(self._streams.items()):", "for stream_id, stream in self._streams.items():",
        ('C07.d', 'snapshot'))
variant('b-rrresp-cancel-nofinish', ['C10'], H + 'request_response_responder.py',
        """            self.future.cancel()
            self._finish_stream()
""", """            self.future.cancel()
""", ('C10.a', 'RequestResponseResponder.frame_received/CancelFrame'))
variant('b-rrresp-future-done-error-nofinish', ['C10'], H + 'request_response_responder.py',
        """        else:
            self.socket.send_error(self.stream_id, future.exception())

        self._finish_stream()
""", """        else:
            self.socket.send_error(self.stream_id, future.exception())
            return

        self._finish_stream()
""", ('C10.a', 'RequestResponseResponder.future_done'))
variant('b-ssresp-subscriber-complete-nofinish', ['C10'], H + 'request_stream_responder.py',
        """        self.socket.send_payload(
            self.stream_id, Payload(), complete=True, is_next=False)

        self.socket.finish_stream(self.stream_id)
""", """        self.socket.send_payload(
            self.stream_id, Payload(), complete=True, is_next=False)
""", ('C10.a', 'StreamSubscriber.on_complete'))
variant('b-channel-finish-needs-or', ['C10'], H + 'request_cahnnel_common.py',
        "if self._received_complete and self._sent_complete:", "if self._received_complete and not self._sent_complete:",
        ('C10.a', 'then'))
variant('b-channel-complete-marks-sent', ['C10'], H + 'request_cahnnel_common.py',
        """            if frame.flags_complete:
                self.mark_completed_and_finish(received=True)
""", """            if frame.flags_complete:
                self.mark_completed_and_finish(sent=True)
""", ('C10.a', 'then'))
variant('b-finish-stream-keeps-cache', ['C10'], 'rsocket/rsocket_base.py',
        """        self._stream_control.finish_stream(stream_id)
        self._frame_fragment_cache.remove(stream_id)
""", """        self._stream_control.finish_stream(stream_id)
""", ('C10.b', 'finish_stream'))
variant('b-fnf-no-release', ['C10'], 'rsocket/rsocket_base.py',
        "        frame.sent_future.add_done_callback(lambda _: self.finish_stream(stream_id))\n", "",
        ('C10.c', 'fire_and_forget'))
variant('b-initial-n-leak', ['C10'], 'rsocket/streams/stream_handler.py',
        """            self.socket.finish_stream(self.stream_id)
            raise RSocketValueError""", """            raise RSocketValueError""", ('C10.a', 'initial_request_n'))

# twins
variant('t-ssreq-logging', ['C07', 'C10', 'C08', 'C09'], H + 'request_stream_requester.py',
        """        elif isinstance(frame, ErrorFrame):
            self._subscriber.on_error""", """        elif isinstance(frame, ErrorFrame):
            logger().debug('error frame on stream %s', self.stream_id)
            self._subscriber.on_error""", kind='twin')
variant('t-ssreq-helper-extracted', ['C07', 'C10', 'C08', 'C09'], H + 'request_stream_requester.py',
        """        elif isinstance(frame, ErrorFrame):
            self._subscriber.on_error(error_frame_to_exception(frame))
            self._finish_stream()

    def _send_stream_request""", """        elif isinstance(frame, ErrorFrame):
            self._fail(error_frame_to_exception(frame))

    def _fail(self, exception):
        self._subscriber.on_error(exception)
        self._finish_stream()

    def _send_stream_request""", kind='twin')
variant('t-rrreq-inverted-if', ['C07', 'C10', 'C08', 'C09'], H + 'request_response_requester.py',
        """        if isinstance(frame, PayloadFrame):
            self._terminated = True
            if not self._future.done():
                self._future.set_result(payload_from_frame(frame))
            self._finish_stream()
        elif isinstance(frame, ErrorFrame):
            self._terminated = True
            if not self._future.done():
                self._future.set_exception(error_frame_to_exception(frame))
            self._finish_stream()
""", """        if isinstance(frame, ErrorFrame):
            self._terminated = True
            if self._future.done():
                pass
            else:
                self._future.set_exception(error_frame_to_exception(frame))
            self._finish_stream()
        elif isinstance(frame, PayloadFrame):
            self._terminated = True
            done = self._future.done()
            if not done:
                self._future.set_result(payload_from_frame(frame))
            self._finish_stream()
""", kind='twin')
variant('t-channel-renamed-flags', ['C07', 'C10', 'C08', 'C09'], H + 'request_cahnnel_common.py',
        "_received_complete", "_inbound_closed", kind='twin', count=4)
variant('t-streamcontrol-del', ['C07', 'C10', 'C08', 'C09', 'C11'], 'rsocket/stream_control.py',
        "        self._streams.pop(stream_id, None)\n",
        "        if stream_id in self._streams:\n            self._streams.pop(stream_id)\n", kind='twin')
