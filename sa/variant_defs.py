"""Registry of checker-validation variants (see variants.py).  Break variants compile and are of the kind the
unedited test suite would plausibly not notice; twins are behaviour-preserving edits that must stay silent."""
from .variants import variant, variant_multi

H = 'rsocket/handlers/'

# ----------------------------------------------------------------------------------------------- C07 / C10
variant('b-ssreq-error-nofinish', ['C07', 'C10'], H + 'request_stream_requester.py',
        """            self._subscriber.on_error(error_frame_to_exception(frame))
            self._finish_stream()
""", """            self._subscriber.on_error(error_frame_to_exception(frame))
""", ('C', 'RequestStreamRequester.frame_received/ErrorFrame'))
variant('b-ssreq-complete-nofinish', ['C10', 'C07'], H + 'request_stream_requester.py',
        """            if frame.flags_complete:
                self._finish_stream()
""", """            if frame.flags_complete and frame.flags_next:
                self._finish_stream()
""", ('C', 'RequestStreamRequester.frame_received/PayloadFrame[complete,!next]'))
variant('b-rrreq-unguarded-result', ['C07'], H + 'request_response_requester.py',
        """            if not self._future.done():
                self._future.set_result(payload_from_frame(frame))
""", """            self._future.set_result(payload_from_frame(frame))
""", ('C07.a', 'set_result'))
variant('b-rrreq-cancelled-guard', ['C07'], H + 'request_response_requester.py',
        """            if not self._future.done():
                self._future.set_exception(error_frame_to_exception(frame))
""", """            if not self._future.cancelled():
                self._future.set_exception(error_frame_to_exception(frame))
""", ('C07.a', 'set_exception'), note='cancelled() does not exclude a result that is already set')
variant('b-channel-drop-guard-removed', ['C07'], H + 'request_cahnnel_common.py',
        """        elif self._received_complete and isinstance(frame, (PayloadFrame, ErrorFrame)):
            logger().debug('%s: Dropping frame received after termination', self.__class__.__name__)
""", "", ('C07.b', 'then ErrorFrame'))
variant('b-channel-drop-guard-payload-only', ['C07'], H + 'request_cahnnel_common.py',
        "elif self._received_complete and isinstance(frame, (PayloadFrame, ErrorFrame)):",
        "elif self._received_complete and isinstance(frame, PayloadFrame):", ('C07.b', 'then ErrorFrame'))
variant('b-ssreq-request-before-subscribe', ['C07'], H + 'request_stream_requester.py',
        """        super().subscribe(subscriber)

        if self._terminated:
            return  # cancelled from on_subscribe: the stream is never opened

        self._requested = True
        self._send_stream_request(self.payload)
""", """        self._requested = True
        self._send_stream_request(self.payload)
        super().subscribe(subscriber)
""", ('C07.c', 'RequestStreamRequester.subscribe'))
variant('b-stopall-live-iteration', ['C07'], 'rsocket/stream_control.py',
        "for stream_id, stream in list(self._streams.items()):", "for stream_id, stream in self._streams.items():",
        ('C07.d', 'snapshot'))
variant('b-rrresp-cancel-nofinish', ['C10'], H + 'request_response_responder.py',
        """            self.future.cancel()
            self._finish_stream()
""", """            self.future.cancel()
""", ('C10.a', 'RequestResponseResponder.frame_received/CancelFrame'))
variant('b-rrresp-future-done-error-nofinish', ['C10'], H + 'request_response_responder.py',
        """        else:
            self.socket.send_error(self.stream_id, future.exception())

        self._finish_stream()
""", """        else:
            self.socket.send_error(self.stream_id, future.exception())
            return

        self._finish_stream()
""", ('C10.a', 'RequestResponseResponder.future_done'))
variant('b-ssresp-subscriber-complete-nofinish', ['C10'], H + 'request_stream_responder.py',
        """        self.socket.send_payload(
            self.stream_id, Payload(), complete=True, is_next=False)

        self.socket.finish_stream(self.stream_id)
""", """        self.socket.send_payload(
            self.stream_id, Payload(), complete=True, is_next=False)
""", ('C10.a', 'StreamSubscriber.on_complete'))
variant('b-channel-finish-needs-or', ['C10'], H + 'request_cahnnel_common.py',
        "if self._received_complete and self._sent_complete:", "if self._received_complete and not self._sent_complete:",
        ('C10.a', 'then'))
variant('b-channel-complete-marks-sent', ['C10'], H + 'request_cahnnel_common.py',
        """            if frame.flags_complete:
                self.mark_completed_and_finish(received=True)
""", """            if frame.flags_complete:
                self.mark_completed_and_finish(sent=True)
""", ('C10.a', 'half-close keeps the stream'))
variant('b-finish-stream-keeps-cache', ['C10'], 'rsocket/rsocket_base.py',
        """        self._stream_control.finish_stream(stream_id)
        self._frame_fragment_cache.remove(stream_id)
""", """        self._stream_control.finish_stream(stream_id)
""", ('C10.b', 'finish_stream'))
variant('b-fnf-no-release', ['C10'], 'rsocket/rsocket_base.py',
        "        frame.sent_future.add_done_callback(lambda _: self.finish_stream(stream_id))\n", "",
        ('C10.c', 'fire_and_forget'))
variant('b-initial-n-leak', ['C10'], 'rsocket/streams/stream_handler.py',
        """            self.socket.finish_stream(self.stream_id)
            raise RSocketValueError""", """            raise RSocketValueError""", ('C10.a', 'initial_request_n'))

# twins
variant('t-ssreq-logging', ['C07', 'C10', 'C08', 'C09'], H + 'request_stream_requester.py',
        """        elif isinstance(frame, ErrorFrame):
            self._terminated = True
            self._subscriber.on_error""", """        elif isinstance(frame, ErrorFrame):
            logger().debug('error frame on stream %s', self.stream_id)
            self._terminated = True
            self._subscriber.on_error""", kind='twin')
variant('t-ssreq-helper-extracted', ['C07', 'C10', 'C08', 'C09'], H + 'request_stream_requester.py',
        """        elif isinstance(frame, ErrorFrame):
            self._terminated = True
            self._subscriber.on_error(error_frame_to_exception(frame))
            self._finish_stream()

    def _send_stream_request""", """        elif isinstance(frame, ErrorFrame):
            self._fail(error_frame_to_exception(frame))

    def _fail(self, exception):
        self._terminated = True
        self._subscriber.on_error(exception)
        self._finish_stream()

    def _send_stream_request""", kind='twin')
variant('t-rrreq-inverted-if', ['C07', 'C10', 'C08', 'C09'], H + 'request_response_requester.py',
        """        if isinstance(frame, PayloadFrame):
            self._terminated = True
            if not self._future.done():
                self._future.set_result(payload_from_frame(frame))
            self._finish_stream()
        elif isinstance(frame, ErrorFrame):
            self._terminated = True
            if not self._future.done():
                self._future.set_exception(error_frame_to_exception(frame))
            self._finish_stream()
""", """        if isinstance(frame, ErrorFrame):
            self._terminated = True
            if self._future.done():
                pass
            else:
                self._future.set_exception(error_frame_to_exception(frame))
            self._finish_stream()
        elif isinstance(frame, PayloadFrame):
            self._terminated = True
            done = self._future.done()
            if not done:
                self._future.set_result(payload_from_frame(frame))
            self._finish_stream()
""", kind='twin')
variant('t-channel-renamed-flags', ['C07', 'C10', 'C08', 'C09', 'C01', 'C06'], H + 'request_cahnnel_common.py',
        "_received_complete", "_inbound_closed", kind='twin', count=9)
variant('t-streamcontrol-del', ['C07', 'C10', 'C08', 'C09', 'C11'], 'rsocket/stream_control.py',
        "        self._streams.pop(stream_id, None)\n",
        "        if stream_id in self._streams:\n            self._streams.pop(stream_id)\n", kind='twin')

# ----------------------------------------------------------------------------------------------- C08
variant('b-rrresp-sends-cancel', ['C08'], H + 'request_response_responder.py',
        """        if isinstance(frame, CancelFrame):
            self.future.cancel()
""", """        if isinstance(frame, CancelFrame):
            self.future.cancel()
            self.send_cancel()
""", ('C08.a', 'RequestResponseResponder'))
variant('b-ssreq-raises-on-unknown', ['C08'], H + 'request_stream_requester.py',
        """            self._subscriber.on_error(error_frame_to_exception(frame))
            self._finish_stream()

    def _send""", """            self._subscriber.on_error(error_frame_to_exception(frame))
            self._finish_stream()
        else:
            raise RuntimeError('unexpected frame')

    def _send""", ('C08.b', 'RequestStreamRequester.frame_received'))
variant('b-keepalive-on-stream', ['C08'], 'rsocket/frame_builders.py',
        """    frame = KeepAliveFrame()
    frame.flags_respond = True
""", """    frame = KeepAliveFrame()
    frame.stream_id = 1
    frame.flags_respond = True
""", ('C08.c', 'KeepAliveFrame'))
variant('b-initial-n-zero-allowed', ['C08'], 'rsocket/streams/stream_handler.py',
        "        if n <= 0:", "        if n < 0:", ('C08.d', 'initial_request_n'))
variant('b-priority-for-all', ['C08', 'C05'], 'rsocket/rsocket_base.py',
        """    def send_frame(self, frame: Frame):
        self._send_queue.put_nowait(frame)
""", """    def send_frame(self, frame: Frame):
        self.send_priority_frame(frame)
""", ('C', ''))
variant('b-second-setup-on-lease', ['C08'], 'rsocket/rsocket_base.py',
        """        if self._lease_publisher is not None:
            self._lease_publisher.subscribe(self.LeaseSubscriber(self))
""", """        if self._lease_publisher is not None:
            self.send_frame(self._create_setup_frame(self._data_encoding, self._metadata_encoding))
            self._lease_publisher.subscribe(self.LeaseSubscriber(self))
""", ('C08.e', 'built only on connect'))

# ----------------------------------------------------------------------------------------------- C09
variant('b-ssreq-cancel-twice', ['C09'], H + 'request_stream_requester.py',
        """            self.send_cancel()  # a stream the peer has never seen is not cancelled, only released

        self._finish_stream()
""", """            self.send_cancel()  # a stream the peer has never seen is not cancelled, only released

        self._finish_stream()
        self.send_cancel()
""", ('C09.a', 'RequestStreamRequester.cancel'))
variant('b-ssreq-cancel-nofinish', ['C09', 'C10'], H + 'request_stream_requester.py',
        """            self.send_cancel()  # a stream the peer has never seen is not cancelled, only released

        self._finish_stream()
""", """            self.send_cancel()  # a stream the peer has never seen is not cancelled, only released
""", ('C', 'RequestStreamRequester.cancel'))
variant('b-rrreq-cancel-after-terminal', ['C09'], H + 'request_response_requester.py',
        "        if future.cancelled() and not self._terminated:", "        if future.cancelled():",
        ('C09.a', 'no CANCEL after the terminal frame'))
variant('b-rrreq-callback-always-cancels', ['C09'], H + 'request_response_requester.py',
        "        if future.cancelled() and not self._terminated:", "        if not self._terminated:",
        ('C09.a', 'CANCEL iff cancelled'))
variant('b-ssresp-cancel-keeps-producer', ['C09'], H + 'request_stream_responder.py',
        """        elif isinstance(frame, CancelFrame):
            self.subscriber.subscription.cancel()
            self._finish_stream()
""", """        elif isinstance(frame, CancelFrame):
            self._finish_stream()
""", ('C09.b', 'RequestStreamResponder.frame_received/CancelFrame'))
variant('b-rrresp-cancel-keeps-future', ['C09'], H + 'request_response_responder.py',
        """        if isinstance(frame, CancelFrame):
            self.future.cancel()
            self._finish_stream()
""", """        if isinstance(frame, CancelFrame):
            self._finish_stream()
""", ('C09.b', 'RequestResponseResponder.frame_received/CancelFrame'))
variant('b-generator-lazy-attr', ['C09'], 'rsocket/streams/stream_from_generator.py',
        "        self._generator = None\n", "", ('C09.c', 'StreamFromGenerator.cancel'))
variant('b-generator-cancel-skips-n-feeder', ['C09'], 'rsocket/streams/stream_from_generator.py',
        """    def _cancel_feeders(self):
        self._cancel_payload_feeder()
        self._cancel_n_feeder()
""", """    def _cancel_feeders(self):
        self._cancel_payload_feeder()
""", ('C09.d', '_n_feeder'))
variant('b-generator-cancel-no-callback', ['C09'], 'rsocket/streams/stream_from_generator.py',
        """        if self._on_cancel is not None:
            self._on_cancel()
""", "", ('C09.d', '_on_cancel'))
variant('b-sender-unguarded-sent-future', ['C09'], 'rsocket/rsocket_base.py',
        "if frame.sent_future is not None and not frame.sent_future.done():\n                            frame.sent_future.set_result(None)",
        "if frame.sent_future is not None:\n                            frame.sent_future.set_result(None)",
        ('C09.e', '_sender'))
variant('b-channel-cancel-unguarded', ['C09'], H + 'request_cahnnel_common.py',
        """            if self.subscriber.subscription is not None:
                self.subscriber.subscription.cancel()
            self.mark_completed_and_finish(sent=True)""", """            self.subscriber.subscription.cancel()
            self.mark_completed_and_finish(sent=True)""", ('C09.g', 'CancelFrame'))

# ----------------------------------------------------------------------------------------------- C11
variant('b-receiver-transport-error-returns', ['C11'], 'rsocket/rsocket_base.py',
        """        except RSocketTransportError:
            pass
        except Exception:
            logger().error('%s: Unknown error', self._log_identifier(), exc_info=True)
            raise

        await self._on_connection_closed()""", """        except RSocketTransportError:
            return
        except Exception:
            logger().error('%s: Unknown error', self._log_identifier(), exc_info=True)
            raise

        await self._on_connection_closed()""", ('C11.a', 'transport'))
variant('b-receiver-cancel-skips-close', ['C11'], 'rsocket/rsocket_base.py',
        """        except asyncio.CancelledError:
            logger().debug('%s: Asyncio task canceled: receiver', self._log_identifier())
        except RSocketTransportError:
            pass""", """        except asyncio.CancelledError:
            logger().debug('%s: Asyncio task canceled: receiver', self._log_identifier())
            return
        except RSocketTransportError:
            pass""", ('C11.a', 'cancel'))
variant('b-stopall-no-isolation', ['C11'], 'rsocket/stream_control.py',
        """            try:
                if isinstance(stream, Disposable):
                    stream.dispose()
            except Exception:
                logger().error('Error while disposing stream %s', stream_id, exc_info=True)
""", """            if isinstance(stream, Disposable):
                stream.dispose()
""", ('C11.b', 'loop body'))
variant('b-close-sequence-no-finally', ['C11'], 'rsocket/rsocket_base.py',
        """            try:
                await self._handler.on_close(self)
            finally:
                await self._stop_tasks()""", """            await self._handler.on_close(self)
            await self._stop_tasks()""", ('C11.b', 'tasks stopped'))
variant('b-synthetic-error-canceled', ['C11'], 'rsocket/rsocket_base.py',
        "    def stop_all_streams(self, error_code=ErrorCode.CONNECTION_ERROR, data=b''):",
        "    def stop_all_streams(self, error_code=ErrorCode.CANCELED, data=b''):", ('C11.c', 'synthetic error code'))
variant('b-stopall-only-requesters', ['C11'], 'rsocket/stream_control.py',
        """            try:
                if isinstance(stream, Disposable):
                    stream.dispose()
            except Exception:
                logger().error('Error while disposing stream %s', stream_id, exc_info=True)

""", "", ('C11.c', 'dispatch on Requester and Disposable'))
variant('b-dispose-noop', ['C11'], H + 'request_response_responder.py',
        """    def dispose(self):
        self.future.cancel()
""", """    def dispose(self):
        pass
""", ('C11.c', 'RequestResponseResponder.dispose'))
variant_multi('b-keepalive-task-not-cancelled', ['C11'], [
    ('rsocket/rsocket_client.py', """        await super()._stop_tasks()
        keepalive_task = self._keepalive_task
        await cancel_if_task_exists(keepalive_task)

        if self._keepalive_task is keepalive_task:
            self._keepalive_task = None
""", """        await super()._stop_tasks()
        self._keepalive_task = None
"""),
    ('rsocket/rsocket_client.py', """    async def _finally_sender(self):
        await cancel_if_task_exists(self._keepalive_task)
""", """    async def _finally_sender(self):
        pass
""")], ('C11.e', '_keepalive_task'))
variant('t-keepalive-task-cancelled-by-sender-only', ['C11'], 'rsocket/rsocket_client.py',
        """        await super()._stop_tasks()
        keepalive_task = self._keepalive_task
        await cancel_if_task_exists(keepalive_task)

        if self._keepalive_task is keepalive_task:
            self._keepalive_task = None
""", """        await super()._stop_tasks()
        self._keepalive_task = None
""", kind='twin',
        note='the keepalive task is spawned inside the sender task, whose finally block cancels it')
variant('b-tcp-drain-unwrapped', ['C11'], 'rsocket/transports/tcp.py',
        """        with wrap_transport_exception():
            self._writer.write(serialize_prefix_with_frame_size_header(frame))
            frame.write_data_metadata(self._writer.write)
            await self._writer.drain()
""", """        with wrap_transport_exception():
            self._writer.write(serialize_prefix_with_frame_size_header(frame))
            frame.write_data_metadata(self._writer.write)
        await self._writer.drain()
""", ('C11.f', 'drain'))
variant('b-close-does-not-drain-lease-queue', ['C11'], 'rsocket/rsocket_base.py',
        "        for queue in (self._send_queue, self._request_queue):", "        for queue in (self._send_queue,):",
        ('C11.g', 'lease hold queue'))
variant('b-sender-cancel-leaves-future', ['C11'], 'rsocket/rsocket_base.py',
        "                        except BaseException:\n                            self._fail_sent_future(frame)",
        "                        except Exception:\n                            self._fail_sent_future(frame)",
        ('C11.g', 'write ends by cancel'))
variant('b-second-on-close', ['C11'], 'rsocket/rsocket_client.py',
        """        await super().close()

    async def __aenter__""", """        await super().close()
        await self._handler.on_close(self)

    async def __aenter__""", ('C11.d', 'on_close / single call site'))
variant('t-close-sequence-flat-try', ['C11'], 'rsocket/rsocket_base.py',
        """        try:
            self.stop_all_streams()
            self._fail_unsent_frames()
        finally:
            try:
                await self._handler.on_close(self)
            finally:
                await self._stop_tasks()""", """        try:
            try:
                self.stop_all_streams()
                self._fail_unsent_frames()
            except Exception:
                logger().error('close sequence', exc_info=True)
            await self._handler.on_close(self)
        finally:
            await self._stop_tasks()""", kind='twin')

# ----------------------------------------------------------------------------------------------- C13
variant('b-id-step-one', ['C13', 'C08'], 'rsocket/stream_control.py',
        "self._current_stream_id = (self._current_stream_id + 2) & self._maximum_stream_id",
        "self._current_stream_id = (self._current_stream_id + 1) & self._maximum_stream_id", ('C13.a', 'parity'))
variant('b-id-mask-even', ['C13'], 'rsocket/stream_control.py',
        "MAX_STREAM_ID = 0x7FFFFFFF", "MAX_STREAM_ID = 0x7FFFFFFE", ('C13.a', ''))
variant('b-server-first-id-odd', ['C13'], 'rsocket/rsocket_server.py',
        "    def _get_first_stream_id(self) -> int:\n        return 2", "    def _get_first_stream_id(self) -> int:\n        return 1",
        ('C13.a', 'RSocketServer first stream id'))
variant('b-alloc-extra-advance', ['C13'], 'rsocket/stream_control.py',
        """                or self._current_stream_id in self._streams
            )
""", """                or self._current_stream_id in self._streams
            )
            if self._current_stream_id == self._first_stream_id:
                self._increment_stream_id()
""", ('C13.b', 'returned id'))
variant('b-alloc-skips-zero-check', ['C13'], 'rsocket/stream_control.py',
        """            available_stream_id_found = not (
                self._current_stream_id == CONNECTION_STREAM_ID
                or self._current_stream_id in self._streams
            )""", """            available_stream_id_found = self._current_stream_id not in self._streams""",
        ('C13.b', 'returned id'))
variant('b-alloc-gives-up-early', ['C13'], 'rsocket/stream_control.py',
        "if attempt_counter > self._maximum_stream_id / 2:", "if attempt_counter > self._maximum_stream_id / 4:",
        ('C13.c', 'attempt bound'))
variant('b-stream-no-inuse-check', ['C13'], 'rsocket/rsocket_base.py',
        """        stream_id = frame.stream_id
        self._stream_control.assert_stream_id_available(stream_id)
        handler = self._handler

        publisher = await handler.request_stream""", """        stream_id = frame.stream_id
        handler = self._handler

        publisher = await handler.request_stream""", ('C13.d', 'handle_request_stream'))
variant('b-inuse-wrong-code', ['C13'], 'rsocket/exceptions.py',
        "        super().__init__(ErrorCode.REJECTED)", "        super().__init__(ErrorCode.INVALID)", ('C13.d', ''))
variant('t-alloc-while-true', ['C13'], 'rsocket/stream_control.py',
        """        available_stream_id_found = False
        while not available_stream_id_found:
            if attempt_counter > self._maximum_stream_id / 2:
                raise RSocketStreamAllocationFailure()

            self._increment_stream_id()
            attempt_counter += 1

            available_stream_id_found = not (
                self._current_stream_id == CONNECTION_STREAM_ID
                or self._current_stream_id in self._streams
            )

        return self._current_stream_id""", """        while True:
            if attempt_counter > self._maximum_stream_id / 2:
                raise RSocketStreamAllocationFailure()

            self._increment_stream_id()
            attempt_counter += 1

            if self._current_stream_id != CONNECTION_STREAM_ID and self._current_stream_id not in self._streams:
                return self._current_stream_id""", kind='twin')

# ----------------------------------------------------------------------------------------------- C14
B = 'rsocket/rsocket_base.py'
variant('b-lease-gate-bypassed-for-fnf', ['C14'], B,
        """        frame = to_fire_and_forget_frame(stream_id, payload, self._fragment_size_bytes)
        self.send_request(frame)""", """        frame = to_fire_and_forget_frame(stream_id, payload, self._fragment_size_bytes)
        self.send_frame(frame)""", ('C14.a', 'fire_and_forget'))
variant('b-lease-gate-inverted', ['C14'], B,
        "        if self._honor_lease and not self._is_frame_allowed_to_send(frame):",
        "        if self._honor_lease and self._is_frame_allowed_to_send(frame):", ('C14.a', 'send_request'))
variant('b-lease-off-by-one', ['C14'], 'rsocket/lease.py',
        "        if self._request_counter > self.maximum_request_count:",
        "        if self._request_counter > self.maximum_request_count + 1:", ('C14.b', 'accept iff'))
variant('b-lease-count-before-expiry', ['C14'], 'rsocket/lease.py',
        """        if self._lease_created_at + self.maximum_lease_time <= datetime.now():
            return False

        self._request_counter += 1
""", """        self._request_counter += 1

        if self._lease_created_at + self.maximum_lease_time <= datetime.now():
            return False
""", ('C14.b', 'expiry before count'))
variant('b-lease-expiry-ignored', ['C14'], 'rsocket/lease.py',
        "        if self._lease_created_at + self.maximum_lease_time <= datetime.now():\n            return False\n",
        "        if self._lease_created_at + self.maximum_lease_time <= datetime.now():\n            pass\n",
        ('C14.b', 'expired lease refuses'))
variant('b-initial-lease-one', ['C14'], B,
        "self._requester_lease = DefinedLease(maximum_request_count=0)",
        "self._requester_lease = DefinedLease(maximum_request_count=1)", ('C14.c', ''))
variant('b-lease-ttl-seconds', ['C14'], B,
        "            timedelta(milliseconds=frame.time_to_live)", "            timedelta(seconds=frame.time_to_live)",
        ('C14.d', 'installs'))
variant('b-lease-drain-swapped', ['C14'], B,
        "while not self._request_queue.empty() and self._requester_lease.is_request_allowed():",
        "while self._requester_lease.is_request_allowed() and not self._request_queue.empty():",
        ('C14.d', 'emptiness'))
variant('b-lease-drain-double-send', ['C14'], B,
        """            self.send_frame(self._request_queue.get_nowait())
            self._request_queue.task_done()""", """            frame = self._request_queue.get_nowait()
            self.send_frame(frame)
            self.send_frame(frame)
            self._request_queue.task_done()""", ('C14.d', 'released once'))
variant('b-lease-announce-ttl-raw', ['C14'], 'rsocket/lease.py',
        "        frame.time_to_live = to_milliseconds(self.maximum_lease_time)",
        "        frame.time_to_live = int(self.maximum_lease_time.total_seconds())", ('C14.e', 'announces'))
variant('b-to-ms-microseconds-twice', ['C14', 'C16'], 'rsocket/datetime_helpers.py',
        "    return round(period.total_seconds() * 1000)",
        "    return round(period.total_seconds() * 1000) + round(period.microseconds / 1000)", ('C16.a', ''))
variant('t-to-ms-by-division', ['C14', 'C16'], 'rsocket/datetime_helpers.py',
        "    return round(period.total_seconds() * 1000)",
        "    return round(period / timedelta(milliseconds=1))", kind='twin')
variant('t-to-ms-components', ['C14', 'C16'], 'rsocket/datetime_helpers.py',
        "    return round(period.total_seconds() * 1000)",
        "    return period.days * 86400000 + period.seconds * 1000 + round(period.microseconds / 1000)", kind='twin')

# ----------------------------------------------------------------------------------------------- C15
variant('b-echo-keeps-respond', ['C15'], B,
        """        if frame.flags_respond:
            frame.flags_respond = False
            self.send_frame(frame)""", """        if frame.flags_respond:
            self.send_frame(frame)""", ('C15.a', 'respond=True'))
variant('b-echo-always', ['C15'], B,
        """        if frame.flags_respond:
            frame.flags_respond = False
            self.send_frame(frame)""", """        frame.flags_respond = False
        self.send_frame(frame)""", ('C15.a', 'respond=False'))
variant('b-echo-drops-data', ['C15'], B,
        """        if frame.flags_respond:
            frame.flags_respond = False
            self.send_frame(frame)""", """        if frame.flags_respond:
            answer = KeepAliveFrame()
            self.send_frame(answer)""", ('C15.a', 'respond=True'))
variant('b-keepalive-sleeps-lifetime', ['C15'], 'rsocket/rsocket_client.py',
        "                await asyncio.sleep(self._keep_alive_period.total_seconds())",
        "                await asyncio.sleep(self._max_lifetime_period.total_seconds())", ('C15.b', '_keepalive_send_task'))
variant('b-keepalive-no-respond-flag', ['C15'], 'rsocket/frame_builders.py',
        "    frame = KeepAliveFrame()\n    frame.flags_respond = True", "    frame = KeepAliveFrame()\n    frame.flags_respond = False",
        ('C15.b', '_keepalive_send_task'))
variant('b-timeout-nonstrict', ['C15'], 'rsocket/rsocket_client.py',
        "if time_since_last_keepalive > self._max_lifetime_period:",
        "if time_since_last_keepalive >= self._max_lifetime_period:", ('C15.b', '_keepalive_timeout_task'))
variant('b-timeout-compares-keepalive-period', ['C15'], 'rsocket/rsocket_client.py',
        "if time_since_last_keepalive > self._max_lifetime_period:",
        "if time_since_last_keepalive > self._keep_alive_period:", ('C15.b', '_keepalive_timeout_task'))
variant('b-timestamp-only-on-respond', ['C15'], B,
        """        self._update_last_keepalive()

        if frame.flags_respond:""", """        if frame.flags_respond:
            self._update_last_keepalive()""", ('C15.b', 'timestamp'))
variant('b-timeout-flag-not-cleared', ['C15'], 'rsocket/rsocket_client.py',
        "                    self._is_server_alive = False\n", "", ('C15.b', '_keepalive_timeout_task'))
variant('t-echo-new-frame', ['C15'], B,
        """        if frame.flags_respond:
            frame.flags_respond = False
            self.send_frame(frame)""", """        if frame.flags_respond:
            answer = KeepAliveFrame(data=frame.data)
            answer.flags_respond = False
            self.send_frame(answer)""", kind='twin')

# ----------------------------------------------------------------------------------------------- C16
variant('b-setup-after-transport', ['C16', 'C08'], 'rsocket/rsocket_client.py',
        """        await super().connect()

        try:
            await self._connect_new_transport()
        except RSocketNoAvailableTransport:
            logger().error('%s: No available transport', self._log_identifier(), exc_info=True)
            return
        except Exception as exception:
            logger().error('%s: Connection error', self._log_identifier(), exc_info=True)
            await self._on_connection_error(exception)
            return

        return self""", """        try:
            await self._connect_new_transport()
        except RSocketNoAvailableTransport:
            logger().error('%s: No available transport', self._log_identifier(), exc_info=True)
            return
        except Exception as exception:
            logger().error('%s: Connection error', self._log_identifier(), exc_info=True)
            await self._on_connection_error(exception)
            return

        return await super().connect()""", ('C16.b', 'connect'))
variant('b-setup-periods-swapped', ['C16'], B,
        """                              self._keep_alive_period,
                              self._max_lifetime_period,""", """                              self._max_lifetime_period,
                              self._keep_alive_period,""", ('C16.c', 'keep_alive_milliseconds'))
variant('b-setup-encodings-swapped', ['C16'], 'rsocket/frame_builders.py',
        """    setup.data_encoding = data_encoding
    setup.metadata_encoding = metadata_encoding""", """    setup.data_encoding = metadata_encoding
    setup.metadata_encoding = data_encoding""", ('C16.c', 'data_encoding'))
variant('b-setup-lease-flag-dropped', ['C16'], 'rsocket/frame_builders.py',
        "    setup.flags_lease = honor_lease\n", "", ('C16.c', 'flags_lease'))
variant('b-setup-payload-metadata-as-data', ['C16'], 'rsocket/frame_builders.py',
        """        setup.data = payload.data
        setup.metadata = payload.metadata
    return setup""", """        setup.data = payload.data
        setup.metadata = payload.data
    return setup""", ('C16.c', 'SetupFrame.metadata'))
variant('b-setup-resume-wrong-code', ['C16'], B,
        "raise RSocketProtocolError(ErrorCode.UNSUPPORTED_SETUP, data='Resume not supported')",
        "raise RSocketProtocolError(ErrorCode.REJECTED_SETUP, data='Resume not supported')", ('C16.d', 'resume requested'))
variant('b-setup-lease-accepted-without-publisher', ['C16'], B,
        """            if self._lease_publisher is None:
                raise RSocketProtocolError(ErrorCode.UNSUPPORTED_SETUP, data='Lease not available')
            else:
                self._subscribe_to_lease_publisher()""", """            self._subscribe_to_lease_publisher()""",
        ('C16.d', 'lease requested'))
variant('b-on-setup-error-swallowed', ['C16'], B,
        """            logger().error('%s: Setup error', self._log_identifier(), exc_info=True)
            raise RSocketProtocolError(ErrorCode.REJECTED_SETUP, data=str(exception)) from exception""",
        """            logger().error('%s: Setup error', self._log_identifier(), exc_info=True)""",
        ('C16.d', 'on_setup raising'))
variant('b-on-setup-args-swapped', ['C16'], B,
        """            await handler.on_setup(frame.data_encoding,
                                   frame.metadata_encoding,""", """            await handler.on_setup(frame.metadata_encoding,
                                   frame.data_encoding,""", ('C16.d', 'on_setup receives'))
variant('b-resume-wrong-code', ['C16'], B,
        "raise RSocketProtocolError(ErrorCode.REJECTED_RESUME, data='Resume not supported')",
        "raise RSocketProtocolError(ErrorCode.REJECTED_SETUP, data='Resume not supported')", ('C16.d', 'handle_resume'))
variant('b-error-reply-on-stream-zero', ['C16', 'C12'], B,
        """                    logger().error('%s: Protocol error %s', self._log_identifier(), str(exception))
                    self.send_error(frame.stream_id, exception)""", """                    logger().error('%s: Protocol error %s', self._log_identifier(), str(exception))
                    self.send_error(CONNECTION_STREAM_ID, exception)""", ('C', ''))

# ----------------------------------------------------------------------------------------------- C17
variant('b-connect-no-alive-reset', ['C17'], 'rsocket/rsocket_client.py',
        "        self._is_closing = False\n        self._is_server_alive = True\n",
        "        self._is_closing = False\n", ('C17.a', '_is_server_alive'))
variant('b-connect-alive-reset-late', ['C17'], 'rsocket/rsocket_client.py',
        """        self._is_server_alive = True
        self._update_last_keepalive()
        self._reset_internals()
        self._start_tasks()
""", """        self._update_last_keepalive()
        self._reset_internals()
        self._start_tasks()
        self._is_server_alive = True
""", ('C17.a', '_is_server_alive'))
variant('b-reconnect-connect-before-close', ['C17'], 'rsocket/rsocket_client.py',
        """                    await self._close(reconnect=True)

                    if self._reconnect_task is not asyncio.current_task():
                        return  # the client was closed while the old connection was being closed

                    self._next_transport = create_future()
                    await self.connect()""", """                    self._next_transport = create_future()
                    await self.connect()
                    await self._close(reconnect=True)""", ('C17.b', '_reconnect_listener'))
variant('b-reconnect-stale-transport-future', ['C17'], 'rsocket/rsocket_client.py',
        """                    self._next_transport = create_future()
                    await self.connect()""", """                    await self.connect()""", ('C17.b', '_reconnect_listener'))
variant('b-reconnect-close-kills-listener', ['C17'], 'rsocket/rsocket_client.py',
        "                    await self._close(reconnect=True)", "                    await self._close()",
        ('C17.b', ''))
variant('b-connect-tasks-before-reset', ['C17'], 'rsocket/rsocket_client.py',
        """        self._reset_internals()
        self._start_tasks()
""", """        self._start_tasks()
        self._reset_internals()
""", ('C17.c', 'fresh'))
variant('b-reset-keeps-stream-table', ['C17'], B,
        """        self._responder_lease = NullLease()
        self._stream_control = StreamControl(self._get_first_stream_id())""", """        self._responder_lease = NullLease()
        if self._stream_control is None:
            self._stream_control = StreamControl(self._get_first_stream_id())""", ('C17.c', 'stream table'))
variant('b-reset-no-drain', ['C17'], B,
        """        if self._stream_control is not None:
            # requests registered after the previous connection ended would otherwise be orphaned
            self.stop_all_streams()

""", "", ('C17.d', '_reset_internals'))

# ----------------------------------------------------------------------------------------------- C02
F = 'rsocket/frame.py'
FH = 'rsocket/frame_helpers.py'
variant('b-resume-positions-swapped', ['C02'], F,
        """        middle += pack_position(self.last_server_position)
        middle += pack_position(self.first_client_position)""", """        middle += pack_position(self.first_client_position)
        middle += pack_position(self.last_server_position)""", ('C02.a', 'ResumeFrame'))
variant('b-setup-cursor-short', ['C02'], F,
        """            struct.unpack_from('>HHII', buffer, offset))

        offset += 12""", """            struct.unpack_from('>HHII', buffer, offset))

        offset += 10""", ('C02', 'SetupFrame'))
variant('b-keepalive-wrong-flag-bit', ['C02'], F,
        """        flags &= ~_FLAG_RESPOND_BIT
        if self.flags_respond:
            flags |= _FLAG_RESPOND_BIT""", """        flags &= ~_FLAG_RESPOND_BIT
        if self.flags_respond:
            flags |= _FLAG_COMPLETE_BIT""", ('C02.c', 'KeepAliveFrame'))
variant('b-native-position-unmasked', ['C02'], FH,
        "        return struct.unpack('>Q', chunk)[0] & MASK_63_BITS", "        return struct.unpack('>Q', chunk)[0]",
        ('C02', ''))
variant('b-incremental-writes-flagged-metadata', ['C02'], F,
        """    def write_data_metadata(self, writer_method):
        if self.metadata:
            writer_method(self.metadata)""", """    def write_data_metadata(self, writer_method):
        if self.flags_metadata:
            writer_method(self.metadata)""", ('C02.e', 'metadata bytes'))
variant('b-prefix-length-ignores-metadata-only', ['C02'], F,
        """        if self.flags_metadata and self.metadata:
            if not self.metadata_only:
                length += 3

        return length""", """        if self.flags_metadata and self.metadata:
            length += 3

        return length""", ('C02.e', 'metadata length field'))
variant('b-setup-version-format', ['C02'], F,
        """        middle = struct.pack(
            '>HHII', self.major_version, self.minor_version,""", """        middle = struct.pack(
            '>HBII', self.major_version, self.minor_version,""", ('C02.a', 'SetupFrame'))
variant('b-lease-reader-unmasked', ['C02'], F,
        "        self.number_of_requests = number_of_requests & MASK_31_BITS",
        "        self.number_of_requests = number_of_requests", ('C02.a', 'LeaseFrame'))
variant('b-request-n-reader-offset', ['C02'], F,
        """        ParseHelper.parse_header(self, buffer, offset)
        offset += HEADER_LENGTH
        self.request_n = unpack_32bit(buffer, offset)""", """        ParseHelper.parse_header(self, buffer, offset)
        offset += HEADER_LENGTH - 1
        self.request_n = unpack_32bit(buffer, offset)""", ('C02', 'RequestNFrame'))
variant('b-payload-next-not-forced', ['C02'], F,
        """        if not is_blank(self.data) or not is_blank(self.metadata):
            self.flags_next = True
""", "", ('C02.f', 'PayloadFrame'))
variant('b-payload-next-only-data', ['C02'], F,
        "        if not is_blank(self.data) or not is_blank(self.metadata):", "        if not is_blank(self.data):",
        ('C02.f', 'PayloadFrame'))
variant('b-header-native-flag-shift', ['C02'], F,
        "    flag_bits |= (frame.frame_type & 3) << 8", "    flag_bits |= (frame.frame_type & 1) << 8", ('C02', ''))
variant('b-channel-complete-read-from-follows', ['C02'], F,
        """        self.flags_complete = flags.flags_complete_lease
        self.flags_follows = flags.flags_follows_resume_respond
        self.initial_request_n""", """        self.flags_complete = flags.flags_follows_resume_respond
        self.flags_follows = flags.flags_follows_resume_respond
        self.initial_request_n""", ('C02.c', 'RequestChannelFrame'))
variant('b-size-header-two-bytes', ['C02'], F,
        """    serialized_frame_prefix = frame.serialize_frame_prefix()
    header = struct.pack('>I', frame.length)[1:]""", """    serialized_frame_prefix = frame.serialize_frame_prefix()
    header = struct.pack('>I', frame.length)[2:]""", ('C02.e', 'serialize_prefix_with_frame_size_header'))
variant('b-size-header-stale-length', ['C02'], F,
        """    serialized_frame_prefix = frame.serialize_frame_prefix()
    header = struct.pack('>I', frame.length)[1:]
    full_frame = header + serialized_frame_prefix""", """    header = struct.pack('>I', frame.length)[1:]
    serialized_frame_prefix = frame.serialize_frame_prefix()
    full_frame = header + serialized_frame_prefix""", ('C02.e', 'serialize_prefix_with_frame_size_header'))
variant('b-pack-24bit-native-wrong-slice', ['C02'], FH,
        "        return struct.pack('>I', length)[1:]", "        return struct.pack('>I', length)[:3]", ('C02', ''))
variant('b-error-code-16bit', ['C02'], F,
        "        middle = struct.pack('>I', self.error_code)", "        middle = struct.pack('>H', self.error_code)",
        ('C02.a', 'ErrorFrame'))
variant('b-registry-swapped', ['C02'], F,
        """    FrameType.REQUEST_N: RequestNFrame,
    FrameType.CANCEL: CancelFrame,""", """    FrameType.REQUEST_N: CancelFrame,
    FrameType.CANCEL: RequestNFrame,""", ('C02.c', 'registry'))
variant('t-setup-unpack-split', ['C02'], F,
        """        (self.major_version, self.minor_version,
         self.keep_alive_milliseconds, self.max_lifetime_milliseconds) = (
            struct.unpack_from('>HHII', buffer, offset))

        offset += 12""", """        self.major_version, self.minor_version = struct.unpack_from('>HH', buffer, offset)
        offset += 4
        self.keep_alive_milliseconds, self.max_lifetime_milliseconds = struct.unpack_from('>II', buffer, offset)
        offset += 8""", kind='twin')
variant('t-mask-literal-rewritten', ['C02'], F,
        "MASK_31_BITS = 0x7FFFFFFF", "MASK_31_BITS = 2147483647", kind='twin')
variant('t-flag-literal-rewritten', ['C02'], F,
        "_FLAG_COMPLETE_BIT = 0x40", "_FLAG_COMPLETE_BIT = 1 << 6", kind='twin')
variant('t-lease-writer-separate-packs', ['C02'], F,
        """        middle = struct.pack('>II',
                             self.time_to_live & MASK_31_BITS,
                             self.number_of_requests & MASK_31_BITS)""", """        middle = struct.pack('>I', self.time_to_live & MASK_31_BITS)
        middle += struct.pack('>I', self.number_of_requests & MASK_31_BITS)""", kind='twin')

# ----------------------------------------------------------------------------------------------- C03
FR = 'rsocket/frame_fragmenter.py'
variant('b-frag-no-prefix-reserve', ['C03'], FR,
        """        if frame_length_required:
            self.first_fragment_size_bytes -= 3
            self.next_frame_header_size -= 3
""", """        if frame_length_required:
            self.first_fragment_size_bytes -= 3
""", ('C03.a', 'data-only'))
variant('b-frag-header-table-wrong', ['C03'], F,
        "    RequestStreamFrame: 10,\n    RequestChannelFrame: 10,", "    RequestStreamFrame: 10,\n    RequestChannelFrame: 6,",
        ('C03.a', 'RequestChannelFrame'))
variant('b-frag-budget-ignores-header', ['C03'], FR,
        "        self.next_frame_header_size = fragment_size_bytes - 6",
        "        self.next_frame_header_size = fragment_size_bytes", ('C03.a', 'data-only'))
variant('b-frag-complete-on-every-fragment', ['C03'], F,
        """    if fragment.is_last is None or fragment.is_last:
        frame.sent_future = base_frame.sent_future
        frame.flags_complete = base_frame.flags_complete
""", """    frame.flags_complete = base_frame.flags_complete

    if fragment.is_last is None or fragment.is_last:
        frame.sent_future = base_frame.sent_future
""", ('C03.b', 'new_frame_fragment'))
variant('b-frag-follows-inverted', ['C03'], F,
        "    frame.flags_follows = fragment.is_last is False", "    frame.flags_follows = fragment.is_last is True",
        ('C03.b', 'new_frame_fragment'))
variant('b-frag-request-n-not-copied', ['C03'], F,
        """    if hasattr(base_frame, 'initial_request_n'):
        frame.initial_request_n = base_frame.initial_request_n
""", "", ('C03.b', 'new_frame_fragment'))
variant('b-frag-all-payload', ['C03'], F,
        """    if fragment.is_first:
        frame = base_frame.__class__()
    else:
        frame = PayloadFrame()
""", """    frame = PayloadFrame()
""", ('C03.b', 'new_frame_fragment'))
variant('b-reassembly-complete-payload-only', ['C03', 'C10'], 'rsocket/frame_fragment_cache.py',
        """        current_frame_from_fragments.flags_complete = next_fragment.flags_complete

        if isinstance(current_frame_from_fragments, PayloadFrame):
            current_frame_from_fragments.flags_next = next_fragment.flags_next""",
        """        if isinstance(current_frame_from_fragments, PayloadFrame):
            current_frame_from_fragments.flags_complete = next_fragment.flags_complete
            current_frame_from_fragments.flags_next = next_fragment.flags_next""",
        ('C03.c', 'RequestChannelFrame'))
variant('b-reassembly-entry-kept', ['C03'], 'rsocket/frame_fragment_cache.py',
        """                frame = self._frame_fragment_builder(frame)
                self._frames_by_stream_id.pop(frame.stream_id)""",
        """                frame = self._frame_fragment_builder(frame)""", ('C03.c', 'final'))
variant('b-reassembly-metadata-into-data', ['C03'], 'rsocket/frame_fragment_cache.py',
        "            current_frame_from_fragments.metadata += next_fragment.metadata",
        "            current_frame_from_fragments.metadata += next_fragment.data", ('C03.c', 'metadata appended'))
variant('b-frag-min-size-32', ['C03'], F, "MINIMUM_FRAGMENT_SIZE_BYTES = 64", "MINIMUM_FRAGMENT_SIZE_BYTES = 32",
        ('C03.e', 'gate'))
variant('b-frag-gate-not-called', ['C03'], B,
        "        self._assert_valid_fragment_size(fragment_size_bytes)\n\n        self._handler_factory",
        "        self._handler_factory", ('C03.e', 'gate'))
variant('b-frag-last-by-short-read', ['C03'], FR,
        "            is_last_fragment = self._data_read_length == self._data_length",
        "            is_last_fragment = len(data_fragment) < self._get_next_fragment_body_size()",
        ('C03.f', 'exhaustion'))
variant('b-frag-payload-no-fragment-size', ['C03'], B,
        """        self.send_frame(to_payload_frame(stream_id, payload, complete, is_next=is_next,
                                         fragment_size_bytes=self.get_fragment_size_bytes()))""",
        """        self.send_frame(to_payload_frame(stream_id, payload, complete, is_next=is_next))""",
        ('C03.e', 'frame builders'))
variant('t-frag-remaining-counter', ['C03'], FR,
        "            is_last_fragment = self._data_read_length == self._data_length",
        "            is_last_fragment = self._data_length == self._data_read_length", kind='twin')

# ----------------------------------------------------------------------------------------------- C05
variant('b-rotate-unconditionally', ['C05'], B,
        """                if not self._send_queue.any_other(next_frame_source,
                                                  lambda queued: queued.stream_id == stream_id):
                    # cycle to next frame source in queue. frames of the same stream must not overtake
                    # the remaining fragments, so the source stays at the head while any are queued.
                    self._send_queue.put_nowait(self._send_queue.get_nowait())""",
        """                self._send_queue.put_nowait(self._send_queue.get_nowait())""", ('C05.a', 're-insertion'))
variant('b-rotate-guard-narrowed', ['C05'], B,
        "lambda queued: queued.stream_id == stream_id):",
        "lambda queued: queued.stream_id == stream_id and queued.sent_future is None):", ('C05.a', 're-insertion'))
variant('b-rotate-polarity', ['C05'], B,
        "                if not self._send_queue.any_other(next_frame_source,",
        "                if self._send_queue.any_other(next_frame_source,", ('C05.a', 're-insertion'))
variant('b-last-fragment-not-dequeued', ['C05'], B,
        """                next_frame_source.get_next_fragment(
                    transport.requires_length_header())  # workaround to clean-up generator.
                self._send_queue.get_nowait()
""", """                next_frame_source.get_next_fragment(
                    transport.requires_length_header())  # workaround to clean-up generator.
""", ('C05.e', 'queue balance'))
variant('b-priority-reversed', ['C05'], B,
        "        for item in items:\n            self._send_queue.put_nowait(item)",
        "        for item in reversed(items):\n            self._send_queue.put_nowait(item)", ('C05.b', 'send_priority_frame'))
variant('b-keepalive-bypasses-queue', ['C05'], 'rsocket/rsocket_client.py',
        """                await asyncio.sleep(self._keep_alive_period.total_seconds())
                self._send_new_keepalive()""", """                await asyncio.sleep(self._keep_alive_period.total_seconds())
                transport = await self._current_transport()
                await transport.send_frame(to_keepalive_frame(b''))""", ('C05.c', 'sender only'))
variant('t-rotate-guard-helper-var', ['C05'], B,
        """                if not self._send_queue.any_other(next_frame_source,
                                                  lambda queued: queued.stream_id == stream_id):""",
        """                same_stream_waiting = self._send_queue.any_other(
                    next_frame_source, lambda queued: queued.stream_id == stream_id)
                if not same_stream_waiting:""", kind='twin')

# ----------------------------------------------------------------------------------------------- C04 / C12
FP = 'rsocket/frame_parser.py'
variant('b-parser-drops-length-only', ['C04'], FP,
        "            self._buffer = self._buffer[length + frame_length_byte_count:]",
        "            self._buffer = self._buffer[length:]", ('C04.a', 'prefix size 3'))
variant('b-parser-counter-drift', ['C04'], FP,
        "            total -= length + frame_length_byte_count", "            total -= length", ('C04', 'prefix size 3'))
variant('b-parser-completeness-off', ['C04'], FP,
        "            if total < length + frame_length_byte_count:\n                return",
        "            if total < length:\n                return", ('C04.a', 'prefix size 3'))
variant('b-parser-advance-before-check', ['C04'], FP,
        """            if total < length + frame_length_byte_count:
                return

            try:""", """            if total < length + frame_length_byte_count:
                self._buffer = self._buffer[frame_length_byte_count:]
                return

            try:""", ('C04.b', 'incomplete'))
variant('b-parser-length-little-endian', ['C04'], FP,
        "length = struct.unpack('>I', b'\\x00' + self._buffer[:frame_length_byte_count])[0]",
        "length = struct.unpack('<I', self._buffer[:frame_length_byte_count] + b'\\x00')[0]", ('C04', ''))
variant('b-parser-length-from-chunk', ['C04'], FP,
        "length = struct.unpack('>I', b'\\x00' + self._buffer[:frame_length_byte_count])[0]",
        "length = struct.unpack('>I', b'\\x00' + data[:frame_length_byte_count])[0]", ('C04.c', 'length'))
variant('b-parser-extend-in-loop', ['C04'], FP,
        """        self._buffer.extend(data)
        total = len(self._buffer)

        frame_length_byte_count = header_length

        while total >= frame_length_byte_count:""", """        total = len(self._buffer) + len(data)

        frame_length_byte_count = header_length

        while total >= frame_length_byte_count:
            self._buffer.extend(data)""", ('C04.d', 'appended once'))
variant('b-parser-invalid-then-return', ['C04'], FP,
        """                logger().error('Error parsing frame', exc_info=True)
                yield InvalidFrame()
""", """                logger().error('Error parsing frame', exc_info=True)
                yield InvalidFrame()
                return
""", ('C04.e', 'undecodable'))
variant('b-parser-narrow-except', ['C04', 'C12'], FP,
        "            except Exception:\n                logger().error('Error parsing frame'",
        "            except RSocketProtocolError:\n                logger().error('Error parsing frame'", ('C', ''))
variant('b-tcp-parses-without-prefix', ['C04'], 'rsocket/transports/tcp.py',
        "        return self._frame_parser.receive_data(data)", "        return self._frame_parser.receive_data(data, 0)",
        ('C04.f', 'TransportTCP'))
variant('b-websocket-parses-with-prefix', ['C04'], 'rsocket/transports/aiohttp_websocket.py',
        "                async for frame in self._frame_parser.receive_data(message, 0):",
        "                async for frame in self._frame_parser.receive_data(message):", ('C04.f', 'TransportAioHttpWebsocket'))
variant('b-parser-empty-message-loop', ['C04', 'C12'], FP,
        "        if len(data) == 0:\n            return\n\n", "", ('C12.e', 'prefix size 0'))
variant('b-parser-guard-waits-for-a-header', ['C04'], FP,
        "        while total >= frame_length_byte_count:",
        "        while total >= frame_length_byte_count + 6:", ('C04.a', 'takes every buffered frame (prefix size 0)'))
variant('t-parser-guard-strict-form', ['C04', 'C12'], FP,
        "        while total >= frame_length_byte_count:",
        "        while total > frame_length_byte_count - 1:", kind='twin')
variant('b-parser-ignored-frame-not-consumed', ['C04'], FP,
        "                if new_frame is not None:\n                    yield new_frame\n",
        "                if new_frame is None:\n                    total -= length + frame_length_byte_count\n                    continue\n                yield new_frame\n",
        ('C04.a', 'one frame extent everywhere'))
_LEN_OLD = "                length = struct.unpack('>I', b'\\x00' + self._buffer[:frame_length_byte_count])[0]"
_LEN_NEW = "                length = unpack_24bit(self._buffer, 0)"
_IMP_OLD = "from rsocket.frame import Frame, InvalidFrame, parse_or_ignore\n"
_IMP_NEW = "from rsocket.frame import Frame, InvalidFrame, parse_or_ignore\nfrom rsocket.frame_helpers import unpack_24bit\n"
variant_multi('t-parser-length-through-helper', ['C04', 'C12'], [(FP, _LEN_OLD, _LEN_NEW), (FP, _IMP_OLD, _IMP_NEW)],
              kind='twin')
variant_multi('b-parser-length-needs-four-bytes', ['C04'], [
    (FP, _LEN_OLD, "                length = unpack_32bit(self._buffer, 0) >> 8"),
    (FP, _IMP_OLD, "from rsocket.frame import Frame, InvalidFrame, parse_or_ignore\nfrom rsocket.frame_helpers import unpack_32bit\n")],
    ('C04.c', 'length from the 3-byte big-endian prefix'))
variant('t-parser-named-extent', ['C04', 'C12'], FP,
        """            if total < length + frame_length_byte_count:
                return
""", """            frame_end = length + frame_length_byte_count
            if total < frame_end:
                return
""", kind='twin')

RB = 'rsocket/rsocket_base.py'
variant('b-receiver-no-catch-all', ['C12'], RB,
        """                except RSocketTransportError:
                    raise
                except Exception as exception:
                    logger().error('%s: Unknown error', self._log_identifier(), exc_info=True)
                    self.send_error(frame.stream_id, exception)
""", """                except RSocketTransportError:
                    raise
""", ('C12.b', '_receiver_listen'))
variant('b-receiver-swallows-transport-error', ['C12'], RB,
        """                except RSocketTransportError:
                    raise
                except Exception as exception:""", """                except Exception as exception:""",
        ('C12.b', '_receiver_listen'))
variant('b-invalid-frame-after-use', ['C12'], RB,
        """        if isinstance(frame, InvalidFrame):
            return

        if is_fragmentable_frame(frame):""", """        if is_fragmentable_frame(frame):""", ('C12.c', 'marker'))
variant('b-unknown-stream-raises', ['C12'], RB,
        """            logger().warning('%s: Dropping frame from unknown stream %d', self._log_identifier(),
                             complete_frame.stream_id)""", """            raise RSocketProtocolError(ErrorCode.INVALID, data='unknown stream')""",
        ('C12.d', 'unknown'))
variant('b-decoder-no-length-check', ['C12'], F,
        """    if len(buffer) < HEADER_LENGTH:
        raise ParseError('Frame too short: {} bytes'.format(len(buffer)))

""", "", ('C12.a', 'too-short'))
variant('b-tags-zero-progress', ['C12', 'C18'], 'rsocket/extensions/tagging.py',
        """            tag_length = struct.unpack('>B', buffer[offset:offset + 1])[0]
            offset += 1
            self.tags.append(buffer[offset:offset + tag_length])
            offset += tag_length""", """            tag_length = struct.unpack('>B', buffer[offset:offset + 1])[0]
            self.tags.append(buffer[offset + 1:offset + 1 + tag_length])
            offset += tag_length""", ('C12.e', 'TaggingMetadata.parse'))
variant('b-routing-stream-propagates', ['C12'], 'rsocket/routing/routing_request_handler.py',
        """        try:
            return await self._parse_and_route(FrameType.REQUEST_STREAM, payload)
        except Exception as exception:
            logger().error('Request stream error: %s', payload, exc_info=True)

            return ErrorStream(exception)""", """        return await self._parse_and_route(FrameType.REQUEST_STREAM, payload)""",
        ('C12.f', 'request_stream'))
variant('b-feeder-swallows-generator-error', ['C12'], 'rsocket/streams/stream_from_generator.py',
        """            logger().error('Stream error', exc_info=True)
            self._subscriber.on_error(exception)
            self._cancel_feeders()""", """            logger().error('Stream error', exc_info=True)
            self._cancel_feeders()""", ('C12.f', 'queue_next_n'))

# ----------------------------------------------------------------------------------------------- C18
EX = 'rsocket/extensions/'
variant('b-mime-duplicate-id', ['C18'], EX + 'mimetypes.py',
        "    APPLICATION_XML = WellKnownMimeType(b'application/xml', 0x0A)",
        "    APPLICATION_XML = WellKnownMimeType(b'application/xml', 0x0B)", ('C18.a', 'WellKnownMimeTypes'))
variant('b-mime-duplicate-name', ['C18'], EX + 'mimetypes.py',
        "    AUDIO_MP4 = WellKnownMimeType(b'audio/mp4', 0x0E)", "    AUDIO_MP4 = WellKnownMimeType(b'audio/mp3', 0x0E)",
        ('C18.a', 'WellKnownMimeTypes'))
variant('b-mime-id-out-of-range', ['C18'], EX + 'mimetypes.py',
        "WellKnownMimeType(b'message/x.rsocket.composite-metadata.v0', 0x7F)",
        "WellKnownMimeType(b'message/x.rsocket.composite-metadata.v0', 0x80)", ('C18.a', 'WellKnownMimeTypes'))
variant('b-auth-lookup-by-wrong-table', ['C18'], EX + 'authentication_types.py',
        "type_by_id = map_type_names_by_id(WellKnownAuthenticationTypes)",
        "type_by_id = map_type_ids_by_name(WellKnownAuthenticationTypes)", ('C18.a', 'require_by_id'))
variant('b-header-flag-bit6', ['C18'], 'rsocket/helpers.py',
        "        serialized = ((1 << 7) | known_type & 0b1111111).to_bytes(1, 'big')",
        "        serialized = ((1 << 6) | known_type & 0b111111).to_bytes(1, 'big')", ('C18.b', 'serialize_well_known_encoding'))
variant('b-custom-length-not-decremented', ['C18'], FH,
        "    encoded_encoding_length = encoding_length - 1  # mime length cannot be 0",
        "    encoded_encoding_length = encoding_length", ('C18.b', 'serialize_well_known_encoding'))
variant('b-reader-length-no-plus-one', ['C18'], 'rsocket/helpers.py',
        "        real_mime_type_length = mime_length_or_type + 1  # mime length cannot be 0",
        "        real_mime_type_length = mime_length_or_type", ('C18.b', 'parse_well_known_encoding'))
variant('b-native-type-mask-6bits', ['C18', 'C02'], FH,
        "        length_or_type = data_byte & 0b1111111", "        length_or_type = data_byte & 0b111111", ('C', ''))
variant('b-mime-guard-too-wide', ['C18'], FH,
        "    if encoded_encoding_length > 0b1111111:", "    if encoded_encoding_length > 0b11111111:",
        ('C18.c', 'serialize_128max_value'))
variant('b-mime-guard-removed', ['C18'], FH,
        "    if encoded_encoding_length > 0b1111111:\n        raise RSocketMimetypeTooLong(encoding)\n\n", "",
        ('C18.c', 'serialize_128max_value'))
variant('b-tag-guard-256', ['C18'], EX + 'tagging.py',
        "            if len(tag) > 255:", "            if len(tag) > 256:", ('C18.c', '_serialize_tags'))
variant('b-composite-length-before-header', ['C18'], EX + 'composite_metadata.py',
        """            item_serialized += metadata_header
            item_serialized += pack_24bit_length(item_metadata)""", """            item_serialized += pack_24bit_length(item_metadata)
            item_serialized += metadata_header""", ('C18.d', 'serialize'))
variant('b-composite-length-of-header', ['C18'], EX + 'composite_metadata.py',
        "            item_serialized += pack_24bit_length(item_metadata)",
        "            item_serialized += pack_24bit_length(metadata_header)", ('C18.d', 'serialize'))
variant('b-composite-reader-skips-two', ['C18'], EX + 'composite_metadata.py',
        """            length = unpack_24bit(metadata, offset)
            offset += 3""", """            length = unpack_24bit(metadata, offset)
            offset += 2""", ('C18.d', 'parse'))
variant('b-composite-registry-crossed', ['C18'], EX + 'composite_metadata.py',
        """    WellKnownMimeTypes.MESSAGE_RSOCKET_MIMETYPE.value.name: StreamDataMimetype,
    WellKnownMimeTypes.MESSAGE_RSOCKET_ACCEPT_MIMETYPES.value.name: StreamDataMimetypes,""",
        """    WellKnownMimeTypes.MESSAGE_RSOCKET_MIMETYPE.value.name: StreamDataMimetypes,
    WellKnownMimeTypes.MESSAGE_RSOCKET_ACCEPT_MIMETYPES.value.name: StreamDataMimetype,""",
        ('C18.e', 'composite registry'))
variant('b-auth-registry-crossed', ['C18'], EX + 'authentication_content.py',
        """    WellKnownAuthenticationTypes.SIMPLE.value.name: AuthenticationSimple,
    WellKnownAuthenticationTypes.BEARER.value.name: AuthenticationBearer,""",
        """    WellKnownAuthenticationTypes.SIMPLE.value.name: AuthenticationBearer,
    WellKnownAuthenticationTypes.BEARER.value.name: AuthenticationSimple,""", ('C18.e', 'authentication registry'))
variant('b-simple-auth-one-byte-length', ['C18'], EX + 'authentication.py',
        "        serialized[0:2] = struct.pack('>I', len(self.username))[2:]",
        "        serialized[0:2] = struct.pack('>I', len(self.password))[2:]", ('C18.f', 'AuthenticationSimple.serialize'))
variant('b-simple-auth-reader-offset', ['C18'], EX + 'authentication.py',
        "        self.password = buffer[2 + username_length:]", "        self.password = buffer[1 + username_length:]",
        ('C18.f', 'AuthenticationSimple.parse'))
variant('b-tag-reader-length-two-bytes', ['C18'], EX + 'tagging.py',
        """            tag_length = struct.unpack('>B', buffer[offset:offset + 1])[0]
            offset += 1""", """            tag_length = struct.unpack('>H', buffer[offset:offset + 2])[0]
            offset += 2""", ('C18.f', 'TaggingMetadata.parse'))
variant('b-bearer-strips', ['C18'], EX + 'authentication.py',
        "    def parse(self, buffer: bytes):\n        self.token = buffer", "    def parse(self, buffer: bytes):\n        self.token = buffer[1:]",
        ('C18.f', 'AuthenticationBearer'))
variant('t-tag-guard-ge', ['C18'], EX + 'tagging.py',
        "            if len(tag) > 255:", "            if len(tag) >= 256:", kind='twin')

# ----------------------------------------------------------------------------------------------- C19
RH = 'rsocket/routing/routing_request_handler.py'
RR = 'rsocket/routing/request_router.py'
variant('b-fnf-routes-directly', ['C19'], RH,
        """        try:
            await self._parse_and_route(FrameType.REQUEST_FNF, payload)""", """        try:
            composite_metadata = self._parse_composite_metadata(payload.metadata)
            await self.router.route(FrameType.REQUEST_FNF, require_route(composite_metadata), payload,
                                    composite_metadata)""", ('C19.a', ''))
variant('b-verify-not-awaited', ['C19'], RH,
        "        await self._verify_authentication(route, composite_metadata)",
        "        self._verify_authentication(route, composite_metadata)", ('C19.a', 'dominates'))
variant('b-verify-after-route', ['C19'], RH,
        """        await self._verify_authentication(route, composite_metadata)
        return await self.router.route(frame_type, route, payload, composite_metadata)""",
        """        result = await self.router.route(frame_type, route, payload, composite_metadata)
        await self._verify_authentication(route, composite_metadata)
        return result""", ('C19.a', 'dominates'))
variant('b-verify-missing-auth-passes', ['C19'], RH,
        """                    await self.authentication_verifier(route, item.authentication)
                    return

            raise Exception('Authentication required but not provided')""",
        """                    await self.authentication_verifier(route, item.authentication)
                    return""", ('C19.a', 'verifier decides'))
variant('b-verify-swallows-rejection', ['C19'], RH,
        """        await self._verify_authentication(route, composite_metadata)
        return await""", """        try:
            await self._verify_authentication(route, composite_metadata)
        except Exception:
            logger().warning('authentication failed')
        return await""", ('C19.a', 'dominates'))
variant('b-verify-only-for-non-push', ['C19'], RH,
        "        await self._verify_authentication(route, composite_metadata)\n",
        "        if frame_type != FrameType.METADATA_PUSH:\n            await self._verify_authentication(route, composite_metadata)\n",
        ('C19.a', 'dominates'))
variant('b-route-map-crossed', ['C19'], RR,
        """            FrameType.REQUEST_STREAM: self._stream_routes,
            FrameType.REQUEST_RESPONSE: self._response_routes,""",
        """            FrameType.REQUEST_STREAM: self._response_routes,
            FrameType.REQUEST_RESPONSE: self._stream_routes,""", ('C19.b', 'routing table row'))
variant('b-unknown-slot-crossed', ['C19'], RR,
        """        elif frame_type == FrameType.REQUEST_STREAM:
            return self._unknown.stream
        elif frame_type == FrameType.REQUEST_CHANNEL:
            return self._unknown.channel""", """        elif frame_type == FrameType.REQUEST_STREAM:
            return self._unknown.channel
        elif frame_type == FrameType.REQUEST_CHANNEL:
            return self._unknown.stream""", ('C19.b', 'routing table row'))
variant('b-entry-wrong-frame-type', ['C19'], RH,
        "            return await self._parse_and_route(FrameType.REQUEST_CHANNEL, payload)",
        "            return await self._parse_and_route(FrameType.REQUEST_STREAM, payload)", ('C19.b', 'channel'))
variant('b-decorator-wrong-container', ['C19'], RR,
        """    def fire_and_forget(self, route: str):
        return decorator_factory(self._fnf_routes, route)""", """    def fire_and_forget(self, route: str):
        return decorator_factory(self._response_routes, route)""", ('C19.b', 'fire_and_forget'))
variant('b-unknown-before-exact', ['C19'], RR,
        """        if route in self._route_map_by_frame_type[frame_type]:
            route_info = self._route_map_by_frame_type[frame_type][route]
        else:
            route_info = self._get_unknown_route(frame_type)""",
        """        route_info = self._get_unknown_route(frame_type)
        if route_info is None and route in self._route_map_by_frame_type[frame_type]:
            route_info = self._route_map_by_frame_type[frame_type][route]""", ('C19.c', 'exact key'))
variant('b-require-route-last-tag', ['C19'], 'rsocket/extensions/helpers.py',
        "            return item.tags[0].decode()", "            return item.tags[-1].decode()", ('C19.c', 'require_route'))
variant('b-missing-route-not-an-error', ['C19'], RR,
        """        if route_info is None:
            raise RSocketUnknownRoute(route)
""", """        if route_info is None:
            return None
""", ('C19.c', 'exact key'))

# ----------------------------------------------------------------------------------------------- C06
SG = 'rsocket/streams/stream_from_generator.py'
variant('b-credit-plus-one', ['C06'], H + 'request_stream_responder.py',
        "            self.subscriber.subscription.request(frame.request_n)",
        "            self.subscriber.subscription.request(frame.request_n + 1)", ('C06.a', 'RequestNFrame'))
variant('b-initial-credit-ignored', ['C06'], H + 'request_stream_responder.py',
        "            self.subscriber.subscription.request(frame.initial_request_n)",
        "            self.subscriber.subscription.request(MAX_REQUEST_N)", ('C06.a', 'RequestStreamFrame'))
variant('b-request-n-frame-default', ['C06'], 'rsocket/streams/stream_handler.py',
        "        self.socket.send_frame(to_request_n_frame(self.stream_id, n))",
        "        self.socket.send_frame(to_request_n_frame(self.stream_id))", ('C06.a', 'REQUEST_N carries'))
variant('b-stream-request-default-n', ['C06'], H + 'request_stream_requester.py',
        "            initial_request_n=self._initial_request_n,\n", "", ('C06.a', 'request frame carries'))
variant('b-feedback-doubles', ['C06', 'C20'], 'rsocket/reactivex/back_pressure_publisher.py',
        "        self._feedback.on_next(n)", "        self._feedback.on_next(n * 2)", ('C06.a', 'reactivex InternalBackPressurePublisher'))
variant('b-collector-rerequest-max', ['C06'], 'rsocket/awaitable/collector_subscriber.py',
        "                self.subscription.request(self._limit_rate)", "                self.subscription.request(MAX_REQUEST_N)",
        ('C06.a', 'CollectorSubscriber'))
variant('b-generate-n-plus-one', ['C06'], SG,
        "        async for i in async_range(n):\n            next_value = next(self._iteration, _finished_iterator)",
        "        async for i in async_range(n + 1):\n            next_value = next(self._iteration, _finished_iterator)",
        ('C06.b', 'StreamFromGenerator._generate_next_n'))
variant('b-async-range-inclusive', ['C06'], 'rsocket/async_helpers.py',
        "    for i in range(count):", "    for i in range(count + 1):", ('C06.b', 'async_range'))
variant('b-generate-two-per-credit', ['C06'], SG,
        """            is_complete_sent = next_value[1]
            yield next_value""", """            is_complete_sent = next_value[1]
            yield next_value
            if not is_complete_sent:
                extra = next(self._iteration, _finished_iterator)
                if extra is not _finished_iterator:
                    yield extra""", ('C06.b', 'StreamFromGenerator._generate_next_n'))
variant('b-rx-feeder-unbounded', ['C06', 'C20'], 'rsocket/reactivex/back_pressure_publisher.py',
        """                    next_n = await request_n_queue.get()
                    async for i in async_range(next_n):
                        event = await iterator.__anext__()""", """                    next_n = await request_n_queue.get()
                    async for i in async_range(MAX_REQUEST_N):
                        event = await iterator.__anext__()""", ('C06.b', 'from_async_event_iterator'))
variant('b-request-queues-twice', ['C06'], SG,
        "        self._request_n_queue.put_nowait(n)\n", "        self._request_n_queue.put_nowait(n)\n        self._request_n_queue.put_nowait(n)\n",
        ('C06.b', 'StreamFromGenerator.request'))
variant('b-prefetch-outside-credit', ['C06'], SG,
        """            await self._start_generator()

            while True:""", """            await self._start_generator()
            self._queue.put_nowait(next(self._iteration))

            while True:""", ('C06.c', 'delivery queue'))
variant('t-credit-local-var', ['C06'], H + 'request_stream_responder.py',
        "            self.subscriber.subscription.request(frame.request_n)",
        "            credit = frame.request_n\n            self.subscriber.subscription.request(credit)", kind='twin')

# ----------------------------------------------------------------------------------------------- C20
RXA = 'rsocket/reactivex/reactivex_handler_adapter.py'
RX3 = 'rsocket/rx_support/rx_handler_adapter.py'
variant('b-adapter-push-recursion', ['C20'], RXA,
        "        await self.delegate.on_metadata_push(metadata)", "        await self.on_metadata_push(metadata)",
        ('C20.a', 'ReactivexHandlerAdapter.on_metadata_push'))
variant('b-adapter-close-to-error', ['C20'], RX3,
        "        await self.delegate.on_close(rsocket, exception)",
        "        await self.delegate.on_connection_error(rsocket, exception)", ('C20.a', 'RxHandlerAdapter.on_close'))
variant('b-adapter-fnf-dropped', ['C20'], RXA,
        "        await self.delegate.request_fire_and_forget(payload)", "        pass",
        ('C20.a', 'request_fire_and_forget'))
variant('b-adapter-setup-args-swapped', ['C20'], RX3,
        "        await self.delegate.on_setup(data_encoding, metadata_encoding, payload)",
        "        await self.delegate.on_setup(metadata_encoding, data_encoding, payload)", ('C20.a', 'RxHandlerAdapter.on_setup'))
variant('b-client-fnf-as-push', ['C20'], 'rsocket/reactivex/reactivex_client.py',
        "        return reactivex.from_future(cast(Future, self._rsocket.fire_and_forget(request)))",
        "        return reactivex.from_future(cast(Future, self._rsocket.metadata_push(request)))",
        ('C20.a', 'ReactiveXClient.fire_and_forget'))
variant('b-subscriber-adapter-complete-as-error', ['C20'], 'rsocket/rx_support/subscriber_adapter.py',
        "    def on_completed(self):\n        self._subscriber.on_complete()",
        "    def on_completed(self):\n        self._subscriber.on_error(None)", ('C20.a', 'rx_support SubscriberAdapter.on_completed'))
variant('b-client-limit-not-initial', ['C20', 'C06'], 'rsocket/rx_support/rx_rsocket.py',
        "        response_publisher = self._rsocket.request_stream(request).initial_request_n(request_limit)",
        "        response_publisher = self._rsocket.request_stream(request)", ('C06.a', 'RxRSocket.request_stream'))
variant('b-dispose-leaves-subscription-task', ['C20'], 'rsocket/reactivex/from_rsocket_publisher.py',
        "            get_next_task.cancel()\n            task.cancel()", "            get_next_task.cancel()",
        ('C20.d', 'reactivex from_rsocket_publisher / dispose'))
variant('b-dispose-never-cancels-stream', ['C20'], 'rsocket/rx_support/from_rsocket_publisher.py',
        """    except CancelledError:
        if not subscriber.done.is_set():
            subscriber.subscription.cancel()""", """    except CancelledError:
        pass""", ('C20.d', 'rx_support _aio_sub'))
variant('b-complete-does-not-mark-done', ['C20'], 'rsocket/reactivex/from_rsocket_publisher.py',
        """    def on_complete(self):
        self.observer.on_completed()
        self._finish()


async def _aio_sub""", """    def on_complete(self):
        self.observer.on_completed()


async def _aio_sub""", ('C20.d', 'reactivex RxSubscriber.on_complete'))
variant('b-channel-observer-without-limit', ['C20'], RXA,
        """            subscriber = RxSubscriberFromObserver(reactivex_channel.observer,
                                                  reactivex_channel.limit_rate)""",
        """            subscriber = RxSubscriberFromObserver(reactivex_channel.observer, MAX_REQUEST_N)""",
        ('C20.e', 'ReactivexHandlerAdapter.request_channel'))

# ----------------------------------------------------------------------------------------------- C01
variant('b-response-to-neighbour-stream', ['C01'], H + 'request_response_responder.py',
        """            self.socket.send_payload(
                self.stream_id, future.result(), complete=True)""", """            self.socket.send_payload(
                self.stream_id + 2, future.result(), complete=True)""", ('C01.a', 'RequestResponseResponder'))
variant('b-cancel-on-stream-zero', ['C01'], 'rsocket/frame_builders.py',
        """    frame = CancelFrame()
    frame.stream_id = stream_id
    return frame""", """    frame = CancelFrame()
    return frame""", ('C01.a', ''))
variant('b-register-under-old-id', ['C01'], RB,
        """        handler.stream_id = stream_id
        self._stream_control.register_stream(stream_id, handler)""", """        self._stream_control.register_stream(handler.stream_id or stream_id, handler)
        handler.stream_id = stream_id""", ('C01.a', '_register_stream'))
variant('b-payload-builder-crosses-fields', ['C01'], 'rsocket/frame_builders.py',
        """    request = RequestStreamFrame()
    request.initial_request_n = initial_request_n
    request.stream_id = stream_id
    request.data = payload.data
    request.metadata = payload.metadata""", """    request = RequestStreamFrame()
    request.initial_request_n = initial_request_n
    request.stream_id = stream_id
    request.data = payload.metadata
    request.metadata = payload.data""", ('C01.b', 'to_request_stream_frame'))
variant('b-payload-from-frame-drops-metadata', ['C01'], 'rsocket/helpers.py',
        "    return Payload(frame.data, frame.metadata)", "    return Payload(frame.data)", ('C01.b', 'payload_from_frame'))
variant('b-dispatch-to-first-stream', ['C01'], 'rsocket/stream_control.py',
        "            self._streams[stream_id].frame_received(frame)",
        "            next(iter(self._streams.values())).frame_received(frame)", ('C01.a', 'handle_stream'))
variant('b-responder-registered-under-next-id', ['C01'], RB,
        """        request_responder = RequestStreamResponder(self, publisher)
        self._register_stream(stream_id, request_responder)""", """        request_responder = RequestStreamResponder(self, publisher)
        self._register_stream(self._allocate_stream(), request_responder)""", ('C01.a', 'handle_request_stream'))
variant('b-second-dequeuer', ['C01'], RB,
        """    def _send_new_keepalive(self, data: bytes = b''):
        self.send_frame(to_keepalive_frame(data))""", """    def _send_new_keepalive(self, data: bytes = b''):
        if self._send_queue.qsize() > 1000:
            self._send_queue.get_nowait()
        self.send_frame(to_keepalive_frame(data))""", ('C01.c', 'dequeued'))
variant('b-requester-sends-empty-payload', ['C01'], H + 'request_response_requester.py',
        """        request = to_request_response_frame(self.stream_id,
                                            self._payload,""", """        request = to_request_response_frame(self.stream_id,
                                            Payload(self._payload.data),""", ('C01.b', 'RequestResponseRequester'))
variant('b-rr-requester-setup-dropped', ['C09'], RB,
        "        self.register_new_stream(requester).setup()\n        return requester.run()",
        "        self.register_new_stream(requester)\n        return requester.run()",
        ('C09.a', 'cancel callback registered'))
variant('b-rr-requester-returns-wrapper-future', ['C09'], RB,
        "        self.register_new_stream(requester).setup()\n        return requester.run()",
        "        self.register_new_stream(requester).setup()\n        return asyncio.shield(requester.run())",
        ('C09.a', 'cancel callback registered'))
variant('b-rr-responder-setup-dropped', ['C01'], RB,
        "        self._register_stream(stream_id, RequestResponseResponder(self, response_future)).setup()",
        "        self._register_stream(stream_id, RequestResponseResponder(self, response_future))",
        ('C01.d', 'response future wired'))
variant('t-rr-requester-setup-separate-statement', ['C09'], RB,
        "        self.register_new_stream(requester).setup()\n        return requester.run()",
        "        self.register_new_stream(requester)\n        requester.setup()\n        future = requester.run()\n        return future",
        kind='twin')
variant('t-rr-responder-setup-separate-statement', ['C01'], RB,
        "        self._register_stream(stream_id, RequestResponseResponder(self, response_future)).setup()",
        "        responder = RequestResponseResponder(self, response_future)\n        self._register_stream(stream_id, responder)\n        responder.setup()",
        kind='twin')
# ---- receive dispatch (C01.e, shared into C14, C15, C16)
variant('b-dispatch-swap-fnf-metadata-push', ['C01'], RB,
        "            RequestFireAndForgetFrame: self.handle_fire_and_forget,\n            MetadataPushFrame: self.handle_metadata_push,",
        "            RequestFireAndForgetFrame: self.handle_metadata_push,\n            MetadataPushFrame: self.handle_fire_and_forget,",
        ('C01.e', 'dispatch / RequestFireAndForgetFrame'))
variant('b-dispatch-lease-row-dropped', ['C14'], RB, "            LeaseFrame: self.handle_lease,\n", "",
        ('C01.e', 'dispatch / LeaseFrame'))
variant('b-dispatch-keepalive-row-dropped', ['C15'], RB, "            KeepAliveFrame: self.handle_keep_alive,\n", "",
        ('C01.e', 'dispatch / KeepAliveFrame'))
variant('b-dispatch-setup-row-to-resume', ['C16'], RB, "            SetupFrame: self.handle_setup,",
        "            SetupFrame: self.handle_resume,", ('C16.d', 'dispatch / SetupFrame'))
variant('b-last-fragment-bypasses-cache', ['C01'], RB,
        "        if is_fragmentable_frame(frame):\n            complete_frame",
        "        if is_fragmentable_frame(frame) and frame.flags_follows:\n            complete_frame",
        ('C01.e', 'routing of PayloadFrame'))
variant('b-raw-fragment-dispatched', ['C01'], RB,
        "        elif self._stream_control.handle_stream(complete_frame):",
        "        elif self._stream_control.handle_stream(frame):", ('C01.e', 'routing of PayloadFrame'))
variant('b-lookup-by-base-class', ['C01', 'C14', 'C15'], RB,
        "async_frame_handler_by_type.get(type(frame), async_noop)",
        "async_frame_handler_by_type.get(frame.__class__.__mro__[1], async_noop)", ('C01.e', '_handle_frame_by_type'))
variant('b-fnf-handler-gets-data-only', ['C01'], RB,
        "        await self._handler.request_fire_and_forget(payload_from_frame(frame))",
        "        await self._handler.request_fire_and_forget(Payload(frame.data))",
        ('C01.e', 'dispatch / RequestFireAndForgetFrame'))
variant('b-requests-only-on-stream-zero', ['C01'], RB,
        "        if (complete_frame.stream_id == CONNECTION_STREAM_ID or\n                isinstance(complete_frame, initiate_request_frame_types)):",
        "        if complete_frame.stream_id == CONNECTION_STREAM_ID:", ('C01.e', 'routing of RequestStreamFrame'))
variant('t-lookup-inline-await', ['C01', 'C14', 'C15', 'C16'], RB,
        "        frame_handler = async_frame_handler_by_type.get(type(frame), async_noop)\n        await frame_handler(frame)",
        "        await async_frame_handler_by_type.get(type(frame), async_noop)(frame)", kind='twin')
variant('t-routing-nested-if', ['C01', 'C14', 'C15', 'C16'], RB,
        "        if (complete_frame.stream_id == CONNECTION_STREAM_ID or\n                isinstance(complete_frame, initiate_request_frame_types)):\n            await self._handle_frame_by_type(complete_frame, async_frame_handler_by_type)\n        elif",
        "        if complete_frame.stream_id == CONNECTION_STREAM_ID:\n            await self._handle_frame_by_type(complete_frame, async_frame_handler_by_type)\n        elif isinstance(complete_frame, initiate_request_frame_types):\n            await self._handle_frame_by_type(complete_frame, async_frame_handler_by_type)\n        elif",
        kind='twin')
# ---- socket plumbing (rules/plumbing.py)
variant('b-lease-drain-never-releases', ['C14'], RB,
        "            self.send_frame(self._request_queue.get_nowait())\n            self._request_queue.task_done()",
        "            break", ('C14.d', 'held requests released'))
variant('b-lease-drain-ignores-allowance', ['C14'], RB,
        "        while not self._request_queue.empty() and self._requester_lease.is_request_allowed():",
        "        while not self._request_queue.empty():", ('C14.d', 'held requests released'))
variant('b-lease-drain-stops-after-one', ['C14'], RB,
        "        while not self._request_queue.empty() and self._requester_lease.is_request_allowed():",
        "        if not self._request_queue.empty() and self._requester_lease.is_request_allowed():",
        ('C14.d', 'held requests released'))
variant('b-fail-unsent-skips-hold-queue', ['C11'], RB,
        "        for queue in (self._send_queue, self._request_queue):",
        "        for queue in (self._send_queue,):", ('C11.g', 'lease hold queue emptied'))
variant('b-fail-unsent-only-first', ['C11'], RB,
        "            while not queue.empty():\n                self._fail_sent_future(queue.get_nowait())",
        "            if not queue.empty():\n                self._fail_sent_future(queue.get_nowait())",
        ('C11.g', 'send queue emptied'))
variant('b-fail-unsent-drops-without-failing', ['C11'], RB,
        "                self._fail_sent_future(queue.get_nowait())", "                queue.get_nowait()",
        ('C11.g', 'send queue emptied'))
variant('b-priority-frame-drained-not-requeued', ['C05', 'C16'], RB,
        "        for item in items:\n            self._send_queue.put_nowait(item)", "        items.clear()",
        ('C', 'drained elements re-queued'))
variant('b-priority-frame-not-first', ['C05', 'C16'], RB,
        "        while not self._send_queue.empty():\n            items.append(self._send_queue.get_nowait())",
        "        while self._send_queue.qsize() > 1:\n            items.append(self._send_queue.get_nowait())",
        ('C', 'inserted into the emptied queue'))
variant('b-send-error-on-connection-stream', ['C12'], RB,
        "        self.send_frame(exception_to_error_frame(stream_id, exception))",
        "        self.send_frame(exception_to_error_frame(CONNECTION_STREAM_ID, exception))",
        ('C12.b', 'RSocketBase.send_error'))
variant('b-error-data-raw-argument', ['C12'], F,
        "        frame.data = ensure_bytes(str(exception))",
        "        frame.data = ensure_bytes(exception.args[0] if exception.args else str(exception))",
        ('C12.g', 'exception_to_error_frame'))
variant('b-protocol-error-data-not-text', ['C12'], RB,
        "raise RSocketProtocolError(ErrorCode.REJECTED_SETUP, data=str(exception)) from exception",
        "raise RSocketProtocolError(ErrorCode.REJECTED_SETUP, data=exception) from exception",
        ('C12.g', 'RSocketProtocolError'))
variant('t-error-data-formatted', ['C12'], F,
        "        frame.data = ensure_bytes(str(exception))",
        "        frame.data = ensure_bytes('%s' % (exception,))", kind='twin')
variant('b-close-transport-narrow-except', ['C17', 'C11'], RB,
        "                    await transport.close()\n                except Exception:",
        "                    await transport.close()\n                except RSocketTransportError:",
        ('C', 'a failing transport.close() is contained'))
variant('t-close-transport-base-exception-split', ['C17', 'C11'], RB,
        "                    await transport.close()\n                except Exception:",
        "                    await transport.close()\n                except (RSocketTransportError, Exception):",
        kind='twin')
RR = 'rsocket/load_balancer/round_robin.py'
variant('b-pool-close-gather-fail-fast', ['C11'], RR,
        "            await asyncio.gather(*[client.close() for client in self._pool],\n                                 return_exceptions=True)",
        "            await asyncio.gather(*[client.close() for client in self._pool])",
        ('C11.j', 'LoadBalancerRoundRobin.close'))
variant('b-pool-close-sequential-loop', ['C11'], RR,
        "            await asyncio.gather(*[client.close() for client in self._pool],\n                                 return_exceptions=True)",
        "            for client in self._pool:\n                await client.close()",
        ('C11.j', 'LoadBalancerRoundRobin.close'))
variant('b-pool-close-skips-first', ['C11'], RR,
        "            await asyncio.gather(*[client.close() for client in self._pool],\n                                 return_exceptions=True)",
        "            await asyncio.gather(*[client.close() for client in self._pool[1:]],\n                                 return_exceptions=True)",
        ('C11.j', 'LoadBalancerRoundRobin.close'))
variant('t-pool-close-contained-loop', ['C11'], RR,
        "            await asyncio.gather(*[client.close() for client in self._pool],\n                                 return_exceptions=True)",
        "            for client in self._pool:\n                try:\n                    await client.close()\n                except Exception:\n                    pass",
        kind='twin')
variant('b-collector-parameters-swapped', ['C06', 'C01'], 'rsocket/awaitable/collector_subscriber.py',
        "    def __init__(self, limit_rate=MAX_REQUEST_N, limit_count=None) -> None:",
        "    def __init__(self, limit_count=None, limit_rate=MAX_REQUEST_N) -> None:",
        ('C06.a', 'AwaitableRSocket.request_stream'))
variant_multi('t-collector-parameters-swapped-keyword-site', ['C06', 'C01'], [
    ('rsocket/awaitable/collector_subscriber.py',
     "    def __init__(self, limit_rate=MAX_REQUEST_N, limit_count=None) -> None:",
     "    def __init__(self, limit_count=None, limit_rate=MAX_REQUEST_N) -> None:"),
    ('rsocket/awaitable/awaitable_rsocket.py',
     "    async def request_stream(self,\n                             payload: Payload,\n                             limit_rate=MAX_REQUEST_N) -> List[Payload]:\n        subscriber = CollectorSubscriber(limit_rate)",
     "    async def request_stream(self,\n                             payload: Payload,\n                             limit_rate=MAX_REQUEST_N) -> List[Payload]:\n        subscriber = CollectorSubscriber(limit_rate=limit_rate)"),
    ('rsocket/awaitable/awaitable_rsocket.py',
     "                              sending_done: Optional[asyncio.Event] = None) -> List[Payload]:\n        subscriber = CollectorSubscriber(limit_rate)",
     "                              sending_done: Optional[asyncio.Event] = None) -> List[Payload]:\n        subscriber = CollectorSubscriber(limit_rate=limit_rate)")],
    kind='twin')
variant('b-fragmenter-framing-mode-dropped', ['C03'], F,
        "                self.fragment_size_bytes,\n                requires_length_header\n            )",
        "                self.fragment_size_bytes\n            )", ('C03.i', 'get_next_fragment'))
variant('b-sender-assumes-length-prefix', ['C03'], RB,
        "            next_fragment = next_frame_source.get_next_fragment(transport.requires_length_header())",
        "            next_fragment = next_frame_source.get_next_fragment()", ('C03.i', 'callers of get_next_fragment'))
variant('t-fragmenter-call-by-keyword', ['C03'], F,
        "                self.data,\n                self.metadata,\n                get_header_length(self),\n                self.fragment_size_bytes,\n                requires_length_header\n            )",
        "                data=self.data,\n                metadata=self.metadata,\n                fragment_size_bytes=self.fragment_size_bytes,\n                first_frame_header_size=get_header_length(self),\n                frame_length_required=requires_length_header\n            )",
        kind='twin')
AIO = 'rsocket/transports/aiohttp_websocket.py'
variant('b-ws-server-loop-end-unsignalled', ['C11'], AIO,
        "            logger().debug('Asyncio task canceled: aiohttp_handle_incoming_ws_messages')\n        finally:\n            self._incoming_frame_queue.put_nowait(RSocketTransportError())\n",
        "            logger().debug('Asyncio task canceled: aiohttp_handle_incoming_ws_messages')\n",
        ('C11.k', 'TransportAioHttpWebsocket.handle_incoming_ws_messages'))
variant('b-ws-client-orderly-close-unsignalled', ['C11'], AIO,
        "        finally:\n            # the receiver learns that no more frames will arrive, however the websocket ended\n            self._incoming_frame_queue.put_nowait(RSocketTransportError())\n",
        "", ('C11.k', 'TransportAioHttpClient.handle_incoming_ws_messages / normal end'))
variant('b-channels-disconnect-unsignalled', ['C11'], 'rsocket/transports/channels_transport.py',
        "            self.transport._incoming_frame_queue.put_nowait(RSocketTransportError())\n", "",
        ('C11.k', 'AsyncRSocketConsumer.receive'))
variant('b-ws-signal-only-on-error', ['C11'], 'rsocket/transports/websockets_transport.py',
        "        finally:\n            self._incoming_frame_queue.put_nowait(RSocketTransportError())",
        "        except Exception:\n            self._incoming_frame_queue.put_nowait(RSocketTransportError())",
        ('C11.k', 'WebsocketsTransport.consumer_handler'))
variant('t-ws-signal-spelled-out', ['C11'], 'rsocket/transports/websockets_transport.py',
        "        finally:\n            self._incoming_frame_queue.put_nowait(RSocketTransportError())",
        "        except BaseException:\n            self._incoming_frame_queue.put_nowait(RSocketTransportError())\n            raise\n        self._incoming_frame_queue.put_nowait(RSocketTransportError())",
        kind='twin')
variant('b-collector-cancels-on-completing-element', ['C08'], 'rsocket/awaitable/collector_subscriber.py',
        "        if is_complete:\n            self.is_done.set()\n        elif self._limit_count is not None and self._limit_count == self._total_received_count:\n            self.subscription.cancel()\n            self.is_done.set()",
        "        if self._limit_count is not None and self._limit_count == self._total_received_count:\n            self.subscription.cancel()\n            self.is_done.set()\n        elif is_complete:\n            self.is_done.set()",
        ('C08.i', 'CollectorSubscriber.on_next'))
variant('t-collector-early-return-on-complete', ['C08', 'C06'], 'rsocket/awaitable/collector_subscriber.py',
        "        if is_complete:\n            self.is_done.set()\n        elif self._limit_count",
        "        if is_complete:\n            self.is_done.set()\n            return\n        if self._limit_count",
        kind='twin')
variant('b-passed-argument-ignored', ['C01'], F,
        "                self.fragment_size_bytes,\n                requires_length_header\n            )",
        "                self.fragment_size_bytes\n            )", ('C01.g', 'get_next_fragment'))
variant('b-cancel-helper-only-cancellederror', ['C11'], 'rsocket/helpers.py',
        "        except asyncio.CancelledError:\n            logger().debug('Asyncio task cancellation error: %s', task)\n        except Exception:\n            logger().warning('Runtime error canceling task: %s', task, exc_info=True)",
        "        except asyncio.CancelledError:\n            logger().debug('Asyncio task cancellation error: %s', task)",
        ('C11.e', 'cancel_if_task_exists'))
variant('t-cancel-helper-base-exception', ['C11'], 'rsocket/helpers.py',
        "        except asyncio.CancelledError:\n            logger().debug('Asyncio task cancellation error: %s', task)\n        except Exception:\n            logger().warning('Runtime error canceling task: %s', task, exc_info=True)",
        "        except BaseException:\n            logger().debug('Asyncio task ended: %s', task, exc_info=True)",
        kind='twin')
COL = 'rsocket/awaitable/collector_subscriber.py'
AW = 'rsocket/awaitable/awaitable_rsocket.py'
variant('b-collector-drops-completing-element', ['C01'], COL,
        "        self.values.append(value)\n\n        self._received_count += 1",
        "        if not is_complete:\n            self.values.append(value)\n\n        self._received_count += 1",
        ('C01.h', 'every element collected once'))
variant('b-collector-error-not-raised', ['C01', 'C07'], COL,
        "        if self.error:\n            raise self.error\n", "", ('C01.h', 'CollectorSubscriber.run'))
variant('b-collector-error-without-release', ['C07', 'C01'], COL,
        "        self.error = exception\n        self.is_done.set()", "        self.error = exception",
        ('C01.h', 'CollectorSubscriber.on_error'))
variant('b-collector-complete-without-release', ['C07', 'C01'], COL,
        "    def on_complete(self):\n        self.is_done.set()", "    def on_complete(self):\n        pass",
        ('C01.h', 'CollectorSubscriber.on_complete'))
variant('b-awaitable-close-not-awaited', ['C11'], AW,
        "    async def close(self):\n        await self._rsocket.close()",
        "    def close(self):\n        self._rsocket.close()", ('C11.l', 'AwaitableRSocket.close'))
variant('b-awaitable-fnf-wrong-method', ['C01'], AW,
        "        return self._rsocket.fire_and_forget(payload)", "        return self._rsocket.metadata_push(payload)",
        ('C01.h', 'AwaitableRSocket.fire_and_forget'))
variant('t-awaitable-close-returned', ['C11', 'C01'], AW,
        "    async def close(self):\n        await self._rsocket.close()",
        "    def close(self):\n        return self._rsocket.close()", kind='twin')
variant('t-collector-run-temp', ['C01', 'C07'], COL,
        "        if self.error:\n            raise self.error\n\n        return self.values",
        "        error = self.error\n        if error is not None:\n            raise error\n\n        return self.values",
        kind='twin')
TG = 'rsocket/extensions/tagging.py'
variant('b-tags-loop-stops-one-short', ['C18'], TG,
        "        while offset < len(buffer):", "        while offset < len(buffer) - 1:",
        ('C18.i', 'TaggingMetadata.parse'))
variant('b-composite-loop-stops-one-short', ['C18'], 'rsocket/extensions/composite_metadata.py',
        "        while offset < composite_length:", "        while offset + 1 < composite_length:",
        ('C18.i', 'CompositeMetadata.parse'))
variant('t-tags-length-by-index', ['C18', 'C12'], TG,
        "            tag_length = struct.unpack('>B', buffer[offset:offset + 1])[0]",
        "            tag_length = buffer[offset]", kind='twin')
variant('t-tags-copied-to-bytes', ['C18', 'C12'], TG,
        "            self.tags.append(buffer[offset:offset + tag_length])",
        "            self.tags.append(bytes(buffer[offset:offset + tag_length]))", kind='twin')
variant('t-tags-bound-hoisted', ['C18', 'C12'], TG,
        "        offset = 0\n\n        while offset < len(buffer):",
        "        offset = 0\n        end = len(buffer)\n\n        while offset < end:", kind='twin')
SCF = 'rsocket/stream_control.py'
_INIT_OLD = "        self._first_stream_id = (first_stream_id - 2) & MAX_STREAM_ID\n        self._current_stream_id = self._first_stream_id\n"
_INIT_NEW = "        self._first_stream_id = first_stream_id\n        self._current_stream_id = (first_stream_id - 2) & MAX_STREAM_ID\n"
_INC_OLD = "        self._current_stream_id = (self._current_stream_id + 2) & self._maximum_stream_id\n"
_INC_NEW = ("        next_stream_id = self._current_stream_id + 2\n\n        if next_stream_id %s self._maximum_stream_id:\n"
            "            next_stream_id = self._first_stream_id\n\n        self._current_stream_id = next_stream_id\n")
variant_multi('b-id-wrap-one-step-early', ['C13'], [(SCF, _INIT_OLD, _INIT_NEW), (SCF, _INC_OLD, _INC_NEW % '>=')],
              ('C13.f', 'StreamControl._increment_stream_id'))
variant_multi('t-id-compare-and-wrap', ['C13', 'C08'], [(SCF, _INIT_OLD, _INIT_NEW), (SCF, _INC_OLD, _INC_NEW % '>')],
              kind='twin')
variant('b-adapter-returns-coroutine-unawaited', ['C15', 'C20'], 'rsocket/reactivex/reactivex_handler_adapter.py',
        "        await self.delegate.on_keepalive_timeout(time_since_last_keepalive, rsocket)",
        "        return self.delegate.on_keepalive_timeout(time_since_last_keepalive, rsocket)",
        ('C15.d', 'on_keepalive_timeout'))
variant('b-timeout-callback-not-awaited', ['C15'], 'rsocket/rsocket_client.py',
        "await self._handler.on_keepalive_timeout(", "self._handler.on_keepalive_timeout(",
        ('C15', 'on_keepalive_timeout'))
variant('b-close-forgets-setup-payload', ['C16'], RB,
        "        await self._close_transport()\n\n    async def _stop_tasks(self):",
        "        await self._close_transport()\n        self._setup_payload = None\n\n    async def _stop_tasks(self):",
        ('C16.e', '_setup_payload'))
variant('b-reset-clears-lease-flag', ['C16'], RB,
        "    async def _stop_tasks(self):\n        logger().debug('%s: Cleanup', self._log_identifier())\n",
        "    async def _stop_tasks(self):\n        logger().debug('%s: Cleanup', self._log_identifier())\n        self._honor_lease = False\n",
        ('C16.e', '_honor_lease'))
variant('b-routing-handler-swallows-cancellation', ['C11'], 'rsocket/routing/routing_request_handler.py',
        "            return await self._parse_and_route(FrameType.REQUEST_RESPONSE, payload)\n        except Exception as exception:",
        "            return await self._parse_and_route(FrameType.REQUEST_RESPONSE, payload)\n        except BaseException as exception:",
        ('C11.m', 'RoutingRequestHandler.request_response'))
variant('b-rx-terminal-credit-top-up', ['C20', 'C06'], 'rsocket/reactivex/back_pressure_publisher.py',
        "            async_generator = observable_to_async_event_generator(wrapped_observable)\n            return from_async_event_generator(async_generator, feedback)",
        "            async_generator = observable_to_async_event_generator(wrapped_observable)\n            feedback.on_next(1)\n            return from_async_event_generator(async_generator, feedback)",
        ('C20.i', 'reactivex back_pressure_publisher'))
variant('b-rx-request-forwards-one-more', ['C20', 'C06'], 'rsocket/rx_support/back_pressure_publisher.py',
        "        self._feedback.on_next(n)", "        self._feedback.on_next(n + 1)",
        ('C', 'back_pressure_publisher'))
variant('b-aiohttp-server-yields-every-message', ['C12'], AIO,
        "                if msg.type == aiohttp.WSMsgType.BINARY:\n                    yield msg.data",
        "                if msg.type == aiohttp.WSMsgType.ERROR:\n                    break\n                yield msg.data",
        ('C12.h', 'TransportAioHttpWebsocket.handle_incoming_ws_messages'))
variant('b-aiohttp-client-no-type-filter', ['C12'], AIO,
        "                if msg.type == aiohttp.WSMsgType.BINARY:\n                    async for frame in self._frame_parser.receive_data(msg.data, 0):\n                        self._incoming_frame_queue.put_nowait(frame)",
        "                async for frame in self._frame_parser.receive_data(msg.data, 0):\n                    self._incoming_frame_queue.put_nowait(frame)",
        ('C12.h', 'TransportAioHttpClient.handle_incoming_ws_messages'))
variant('b-channel-no-subscriber-stays-open', ['C10'], H + 'request_cahnnel_common.py',
        "        else:\n            self.mark_completed_and_finish(received=True)", "        else:\n            pass",
        ('C10.a', 'without a subscriber'))
variant('b-drain-without-none-test', ['C11'], RB,
        "        if frame.sent_future is not None and not frame.sent_future.done():\n            frame.sent_future.set_exception(RSocketProtocolError(ErrorCode.CONNECTION_ERROR",
        "        if not frame.sent_future.done():\n            frame.sent_future.set_exception(RSocketProtocolError(ErrorCode.CONNECTION_ERROR",
        ('C11.g', '_fail_unsent_frames'))
variant('b-aiohttp-server-send-dropped', ['C01'], AIO,
        "    async def send_frame(self, frame: Frame):\n        with wrap_transport_exception():\n            await self._ws.send_bytes(frame.serialize())\n\n    async def close(self):\n        await self._ws.close()",
        "    async def send_frame(self, frame: Frame):\n        with wrap_transport_exception():\n            frame.serialize()\n\n    async def close(self):\n        await self._ws.close()",
        ('C01.i', 'TransportAioHttpWebsocket.send_frame'))
variant('b-websockets-drain-loop-removed', ['C01'], 'rsocket/transports/websockets_transport.py',
        "            frame = await self._outgoing_frame_queue.get()\n            await websocket.send(frame.serialize())",
        "            frame = await self._outgoing_frame_queue.get()",
        ('C01.i', 'WebsocketsTransport.send_frame'))
variant('b-aiohttp-server-feeder-not-started', ['C01'], AIO,
        "        await transport.handle_incoming_ws_messages()\n        return ws", "        return ws",
        ('C01.i', 'the feeder is started'))
variant('b-tcp-payload-not-written', ['C02', 'C01'], 'rsocket/transports/tcp.py',
        "            frame.write_data_metadata(self._writer.write)\n", "", ('C', 'TransportTCP.send_frame'))
variant('b-tcp-payload-before-prefix', ['C02'], 'rsocket/transports/tcp.py',
        "            self._writer.write(serialize_prefix_with_frame_size_header(frame))\n            frame.write_data_metadata(self._writer.write)",
        "            frame.write_data_metadata(self._writer.write)\n            self._writer.write(serialize_prefix_with_frame_size_header(frame))",
        ('C02.e', 'TransportTCP.send_frame'))
SFG = 'rsocket/streams/stream_from_generator.py'
_LAZY_OLD = "    def subscribe(self, subscriber: Subscriber):\n        super().subscribe(subscriber)\n\n        if self._payload_feeder is None:\n            self._payload_feeder = asyncio.create_task(self.feed_subscriber())\n\n    def request(self, n: int):\n"
_LAZY_NEW = "    def request(self, n: int):\n        if self._payload_feeder is None:\n            self._payload_feeder = asyncio.create_task(self.feed_subscriber())\n\n"
variant_multi('b-generator-publisher-restarts-after-completion', ['C07', 'C08'], [
    (SFG, _LAZY_OLD, _LAZY_NEW),
    (SFG, "        finally:\n            self._cancel_n_feeder()\n\n    def _send_to_subscriber",
     "        finally:\n            self._payload_feeder = None\n            self._cancel_n_feeder()\n\n    def _send_to_subscriber")],
    ('C07.e', 'a completed publisher does not start delivering again'))
variant_multi('t-generator-publisher-lazy-delivery-feeder', ['C07', 'C08', 'C06', 'C01'], [(SFG, _LAZY_OLD, _LAZY_NEW)],
              kind='twin')
variant('b-graphql-yield-outside-generator-exit-guard', ['C09'], 'rsocket/graphql/rsocket_transport.py',
        "            except GeneratorExit:\n                logger().debug('Generator exited')\n                subscriber.cancel()\n                return",
        "            except GeneratorExit:\n                logger().debug('Generator exited')\n                return",
        ('C09.j', 'RSocketTransport.subscribe'))
variant('b-rx-feedback-subject-replays', ['C20', 'C06'], 'rsocket/rx_support/back_pressure_publisher.py',
        "        self._feedback = Subject()", "        self._feedback = ReplaySubject()",
        ('C20.i', 'the credit channel does not replay'))
variant('b-lifetime-clamped-to-keepalive-period', ['C15', 'C16'], RB,
        "        self._max_lifetime_period = max_lifetime_period\n",
        "        self._max_lifetime_period = max(max_lifetime_period, keep_alive_period)\n",
        ('C16.c', '_max_lifetime_period'))
variant('b-unknown-handler-record-replaced', ['C19'], 'rsocket/routing/request_router.py',
        "            self._unknown.stream = RouteInfo(function)", "            self._unknown = Handlers(stream=RouteInfo(function))",
        ('C19.b', 'routing table row / stream'))
variant_multi('b-rx-adapter-shared-response-operators', ['C20'], [
    ('rsocket/rx_support/rx_handler_adapter.py',
     "        return observable.pipe(\n            operators.default_if_empty(Payload()),\n            operators.to_future()\n        )",
     "        return observable.pipe(*self._as_response)"),
    ('rsocket/rx_support/rx_handler_adapter.py', "        self.delegate = delegate\n",
     "        self.delegate = delegate\n        self._as_response = (operators.default_if_empty(Payload()), operators.to_future())\n")],
    ('C20.j', 'rx_support RxHandlerAdapter.request_response'))
variant('b-logger-table-entry-with-other-signature', ['C12'], 'rsocket/frame_logger.py',
        "    FrameType.REQUEST_N: log_request_n,", "    FrameType.REQUEST_N: log_request_n,\n    None: log_invalid,",
        ('C12.i', 'log_invalid'))
variant('b-allocation-refused-by-table-size', ['C13'], SCF,
        "    def allocate_stream(self) -> int:\n        attempt_counter = 0\n",
        "    def allocate_stream(self) -> int:\n        if len(self._streams) > self._maximum_stream_id // 2:\n            raise RSocketStreamAllocationFailure()\n        attempt_counter = 0\n",
        ('C13.c', 'gives up only when the attempts are used up'))
variant('b-lease-queue-not-failed-on-close', ['C17', 'C11'], RB,
        "        for queue in (self._send_queue, self._request_queue):", "        for queue in (self._send_queue,):",
        ('C11.g', 'lease hold queue'))
variant('b-setup-protocol-error-passed-through', ['C16'], RB,
        "        except Exception as exception:\n            logger().error('%s: Setup error', self._log_identifier(), exc_info=True)",
        "        except RSocketProtocolError:\n            raise\n        except Exception as exception:\n            logger().error('%s: Setup error', self._log_identifier(), exc_info=True)",
        ('C16.d', 'on_setup raising'))
variant('b-rx-publisher-factory-memoised', ['C20', 'C06'], 'rsocket/reactivex/back_pressure_publisher.py',
        "def observable_to_publisher(", "@functools.lru_cache(maxsize=128)\ndef observable_to_publisher(",
        ('C20.k', 'observable_to_publisher'))
variant('b-receiver-writes-error-reply-itself', ['C05'], RB,
        "                    logger().error('%s: Protocol error %s', self._log_identifier(), str(exception))\n                    self.send_error(frame.stream_id, exception)",
        "                    logger().error('%s: Protocol error %s', self._log_identifier(), str(exception))\n                    await transport.send_frame(exception_to_error_frame(frame.stream_id, exception))",
        ('C05.g', 'only the sender task writes'))
variant('b-frame-length-kept-from-first-encode', ['C02'], F,
        "        self.length = self.compute_frame_length(middle)\n",
        "        if not self.length:\n            self.length = self.compute_frame_length(middle)\n",
        ('C02.e', 'length recomputed on every encode'))
variant('b-generator-failure-waits-for-the-queue', ['C07', 'C08'], SFG,
        "            self._subscriber.on_error(exception)\n            self._cancel_feeders()",
        "            self._subscriber.on_error(exception)\n            await self._queue.join()\n            self._cancel_feeders()",
        ('C07.e', 'nothing is delivered after the failure is signalled'))
variant('b-empty-stream-completes-at-subscribe', ['C10', 'C06'], 'rsocket/streams/empty_stream.py',
        "    def request(self, n: int):", "    def subscribe(self, subscriber):\n        super().subscribe(subscriber)\n        self._subscriber.on_complete()\n\n    def request(self, n: int):",
        ('C06.e', 'EmptyStream'))
variant('b-tags-encoded-only-once', ['C18'], TG,
        "        self.content = self._serialize_tags()\n", "        if self.content is None:\n            self.content = self._serialize_tags()\n",
        ('C18.j', 'TaggingMetadata.serialize'))
variant('b-generator-delivery-queue-bounded', ['C01'], SFG,
        "self._queue = asyncio.Queue()", "self._queue = asyncio.Queue(256)", ('C01.j', '_queue'))
variant('b-stop-all-streams-replaces-the-allocator', ['C13'], RB,
        "        self._stream_control.stop_all_streams(error_code, data)\n",
        "        self._stream_control.stop_all_streams(error_code, data)\n        self._stream_control = StreamControl(self._get_first_stream_id())\n",
        ('C13.g', 'id allocator'))
variant('b-sync-generator-credit-loop-without-suspension', ['C12'], SFG,
        "        async for i in async_range(n):\n            next_value = next(self._iteration, _finished_iterator)",
        "        for i in range(n):\n            next_value = next(self._iteration, _finished_iterator)",
        ('C12.j', 'StreamFromGenerator._generate_next_n'))
variant('b-keepalive-timestamp-in-utc', ['C15'], 'rsocket/rsocket_client.py',
        "        self._last_server_keepalive = datetime.now()", "        self._last_server_keepalive = datetime.utcnow()",
        ('C15.b', 'one clock'))
variant('b-hold-queue-waits-for-room', ['C14'], RB,
        "            self.finish_stream(frame.stream_id)\n            raise\n\n    def send_priority_frame",
        "            asyncio.create_task(self._request_queue.put(frame))\n\n    def send_priority_frame",
        ('C14.h', 'overflow reaches the caller'))
variant('b-route-scan-stops-at-first-foreign-entry', ['C19'], 'rsocket/extensions/helpers.py',
        "        if isinstance(item, RoutingMetadata):\n            return item.tags[0].decode()",
        "        if not isinstance(item, RoutingMetadata):\n            break\n        return item.tags[0].decode()",
        ('C19.c', 'require_route'))
variant('b-stop-tasks-clears-before-awaiting', ['C17'], RB,
        "            await cancel_if_task_exists(receiver_task)\n\n            if self._receiver_task is receiver_task:\n                self._receiver_task = None\n",
        "            if self._receiver_task is receiver_task:\n                self._receiver_task = None\n\n            await cancel_if_task_exists(receiver_task)\n",
        ('C17.g', '_stop_tasks'))
variant('t-stop-tasks-through-local-alias', ['C11', 'C17'], RB,
        "        sender_task, receiver_task = self._sender_task, self._receiver_task\n",
        "        sender_task = self._sender_task\n        receiver_task = self._receiver_task\n        current = asyncio.current_task()\n",
        kind='twin')
variant('b-rx-cancel-disposes-before-completing-feedback', ['C20'], 'rsocket/rx_support/back_pressure_publisher.py',
        "    def cancel(self):\n        self._feedback.on_completed()",
        "    def cancel(self):\n        self._subscription.dispose()\n        self._feedback.on_completed()",
        ('C20.i', 'the source is told to stop'))
variant('b-setup-periods-masked-to-31-bits', ['C16', 'C02'], F,
        "            self.keep_alive_milliseconds, self.max_lifetime_milliseconds)\n", "            self.keep_alive_milliseconds & MASK_31_BITS, self.max_lifetime_milliseconds & MASK_31_BITS)\n",
        ('C02.a', 'SetupFrame'))
variant('b-channel-dispose-notifies-before-cancelling', ['C11'], H + 'request_cahnnel_common.py',
        "    def dispose(self):\n        if self.subscriber is not None and self.subscriber.subscription is not None:",
        "    def dispose(self):\n        if self.remote_subscriber is not None and not self._received_complete:\n            self._received_complete = True\n            self.remote_subscriber.on_error(RuntimeError('Connection closed'))\n        if self.subscriber is not None and self.subscriber.subscription is not None:",
        ('C11.c', 'the producer is cancelled before any call-out that can fail'))
variant('t-channel-dispose-notifies-after-cancelling', ['C11'], H + 'request_cahnnel_common.py',
        "            self.subscriber.subscription.cancel()\n\n    def _complete_remote_subscriber(self):",
        "            self.subscriber.subscription.cancel()\n        logger().debug('disposed')\n\n    def _complete_remote_subscriber(self):",
        kind='twin')
variant('b-fragmentable-predicate-by-base-class', ['C03', 'C06'], F,
        "    return isinstance(frame, (\n        PayloadFrame,\n        RequestResponseFrame,\n        RequestChannelFrame,\n        RequestStreamFrame,\n        RequestFireAndForgetFrame\n    ))",
        "    return isinstance(frame, (PayloadFrame, RequestFrame))", ('C03.c', 'is_fragmentable_frame'))
variant('b-request-builder-rejects-after-registration', ['C10'], 'rsocket/frame_builders.py',
        "    request = RequestStreamFrame()\n    request.initial_request_n = initial_request_n\n",
        "    if not 0 < initial_request_n <= MAX_REQUEST_N:\n        raise ValueError('initial request N out of range')\n    request = RequestStreamFrame()\n    request.initial_request_n = initial_request_n\n",
        ('C10.a', 'a rejection releases the stream id'))
variant('b-send-error-noop', ['C12'], RB,
        "        self.send_frame(exception_to_error_frame(stream_id, exception))",
        "        logger().error('error on stream %s: %s', stream_id, exception)", ('C12.b', 'RSocketBase.send_error'))
variant('b-before-sender-not-called', ['C15', 'C17'], RB, "                self._before_sender()\n", "",
        ('C', '_before_sender() once'))
variant('b-finally-sender-only-on-cancel', ['C15', 'C11'], RB,
        "            logger().debug('%s: Asyncio task canceled: sender', self._log_identifier())\n        except Exception:\n            logger().error('%s: RSocket error', self._log_identifier(), exc_info=True)\n            raise\n        finally:\n            await self._finally_sender()",
        "            logger().debug('%s: Asyncio task canceled: sender', self._log_identifier())\n            await self._finally_sender()\n        except Exception:\n            logger().error('%s: RSocket error', self._log_identifier(), exc_info=True)\n            raise",
        ('C', '_finally_sender() on every exit'))
variant('b-transport-closed-only-if-pending', ['C11', 'C17'], RB,
        "        if self._current_transport().done():\n            logger().debug('%s: Closing transport'",
        "        if not self._current_transport().done():\n            logger().debug('%s: Closing transport'",
        ('C', 'an obtained transport is closed'))
variant('b-lease-publisher-never-subscribed', ['C14'], RB,
        "        if self._lease_publisher is not None:\n            self._lease_publisher.subscribe(self.LeaseSubscriber(self))",
        "        if self._lease_publisher is None:\n            return", ('C14.e', 'publisher subscribed'))
variant('b-send-lease-not-installed', ['C14'], RB,
        "            self._responder_lease = lease\n\n            self.send_frame(self._responder_lease.to_frame())",
        "            self.send_frame(lease.to_frame())", ('C14.e', 'send_lease'))
variant('b-connect-no-lease-subscription', ['C14'], RB,
        "        if self._honor_lease:\n            self._subscribe_to_lease_publisher()\n\n        return self",
        "        return self", ('C14.e', 'RSocketBase.connect'))
variant('t-fail-unsent-two-loops', ['C11'], RB,
        "        for queue in (self._send_queue, self._request_queue):\n            while not queue.empty():\n                self._fail_sent_future(queue.get_nowait())",
        "        while not self._send_queue.empty():\n            self._fail_sent_future(self._send_queue.get_nowait())\n        while not self._request_queue.empty():\n            self._fail_sent_future(self._request_queue.get_nowait())",
        kind='twin')
variant('t-send-lease-direct', ['C14'], RB,
        "            self.send_frame(self._responder_lease.to_frame())", "            self.send_frame(lease.to_frame())",
        kind='twin')
variant('t-lease-drain-while-true', ['C14'], RB,
        "        while not self._request_queue.empty() and self._requester_lease.is_request_allowed():\n            self.send_frame(self._request_queue.get_nowait())\n            self._request_queue.task_done()",
        "        while True:\n            if self._request_queue.empty():\n                break\n            if not self._requester_lease.is_request_allowed():\n                break\n            self.send_frame(self._request_queue.get_nowait())\n            self._request_queue.task_done()",
        kind='twin')
# ---- reassembly cache content, queue class (found by the mutation sweep)
FC = 'rsocket/frame_fragment_cache.py'
variant('b-cache-merge-call-dropped', ['C03', 'C01'], FC,
        "            self._merge_frame_content_inplace(current_frame_from_fragments, next_fragment)", "            pass",
        ('C03.c', 'appended in arrival order'))
variant('b-cache-data-not-appended', ['C03'], FC,
        "            current_frame_from_fragments.data += next_fragment.data", "            pass",
        ('C03.c', 'data appended'))
variant('b-cache-metadata-prepended', ['C03'], FC,
        "            current_frame_from_fragments.metadata += next_fragment.metadata",
        "            current_frame_from_fragments.metadata = next_fragment.metadata + current_frame_from_fragments.metadata",
        ('C03.c', 'metadata appended'))
variant('b-cache-final-fragment-alone', ['C03', 'C01'], FC,
        "                frame = self._frame_fragment_builder(frame)\n", "", ('C03.c', 'append / final fragment'))
variant('b-cache-nonfinal-overwrites', ['C03'], FC,
        "            self._frames_by_stream_id[frame.stream_id] = self._frame_fragment_builder(frame)",
        "            self._frames_by_stream_id[frame.stream_id] = frame", ('C03.c', 'append / non-final fragment'))
QP = 'rsocket/queue_peekable.py'
variant('b-peek-returns-tail', ['C05', 'C01'], QP, "        item = self._queue[0]", "        item = self._queue[-1]",
        ('C05.f', 'peek_nowait'))
variant('b-any-other-counts-itself', ['C05', 'C01'], QP,
        "any(other is not item and predicate(other) for other in self._queue)",
        "any(predicate(other) for other in self._queue)", ('C05.f', 'any_other'))
variant('b-peek-does-not-wait', ['C05'], QP, "        while self.empty():\n            getter",
        "        while not self.empty():\n            getter", ('C05.f', 'QueuePeekable.peek'))
variant('t-any-other-explicit-loop', ['C05', 'C01'], QP,
        "        return any(other is not item and predicate(other) for other in self._queue)",
        "        for other in self._queue:\n            if predicate(other) and not (other is item):\n                return True\n        return False",
        kind='twin')
variant('t-any-other-filter-clause', ['C05', 'C01'], QP,
        "        return any(other is not item and predicate(other) for other in self._queue)",
        "        return any(predicate(queued) for queued in self._queue if queued is not item)", kind='twin')
# ---- handler reactions (rules/reactions.py), half-close (C10.a), reconnect plumbing (C17.e)
HD = 'rsocket/handlers/'
variant('b-stream-requester-drops-on-next', ['C01'], HD + 'request_stream_requester.py',
        "            if frame.flags_next:", "            if frame.flags_next and not frame.flags_complete:",
        ('C01.f', 'PayloadFrame[complete,next]'))
variant('b-rr-requester-error-ignored', ['C01'], HD + 'request_response_requester.py',
        "                self._future.set_exception(error_frame_to_exception(frame))", "                pass",
        ('C01.f', 'RequestResponseRequester.frame_received/ErrorFrame'))
variant('b-responder-request-n-ignored', ['C06', 'C01'], HD + 'request_stream_responder.py',
        "            self.subscriber.subscription.request(frame.request_n)", "            pass",
        ('C0', 'RequestNFrame / reaction'))
variant('b-requester-request-not-sent', ['C06'], HD + 'request_stream_requester.py',
        "        self.send_request_n(n)", "        logger().debug('request %s', n)", ('C06.d', 'request'))
variant('b-rr-responder-error-as-payload', ['C01'], HD + 'request_response_responder.py',
        "        elif not future.exception():", "        elif future.exception():", ('C01.f', 'future_done'))
variant('b-channel-responder-completes-with-publisher', ['C01'], HD + 'request_cahnnel_responder.py',
        "            if self.subscriber.subscription is None:", "            if self.subscriber.subscription is not None:",
        ('C01.f', 'RequestChannelFrame'))
variant('b-stream-responder-not-started', ['C01'], RB,
        "        self._register_stream(stream_id, request_responder)\n        request_responder.frame_received(frame)",
        "        self._register_stream(stream_id, request_responder)", ('C01.e', 'dispatch / RequestStreamFrame'))
variant('b-channel-finishes-on-sent-only', ['C10'], HD + 'request_cahnnel_common.py',
        "        if self._received_complete and self._sent_complete:", "        if self._sent_complete:",
        ('C10.a', 'half-close keeps the stream'))
variant('b-channel-finishes-on-either', ['C10'], HD + 'request_cahnnel_common.py',
        "        if self._received_complete and self._sent_complete:",
        "        if self._received_complete or self._sent_complete:", ('C10.a', 'half-close keeps the stream'))
RC = 'rsocket/rsocket_client.py'
variant('b-reconnect-does-not-set-event', ['C17'], RC, "        self._connect_request_event.set()",
        "        self._connect_request_event.clear()", ('C17.e', 'RSocketClient.reconnect'))
variant('b-connecting-flag-never-reset', ['C17'], RC, "        finally:\n            self._connecting = False",
        "        finally:\n            pass", ('C17.e', 'connect-in-progress flag cleared'))
variant('b-connecting-flag-reset-only-on-success', ['C17'], RC,
        "            await transport.connect()\n        finally:\n            self._connecting = False",
        "            await transport.connect()\n            self._connecting = False\n        finally:\n            pass",
        ('C17.e', 'connect-in-progress flag cleared'))
variant('b-listener-busy-loop', ['C17'], RC, "                    await self._connect_request_event.wait()\n", "",
        ('C17.e', '_reconnect_listener'))
variant('b-listener-event-never-cleared', ['C17'], RC,
        "                    self._connect_request_event.clear()\n                    await self._close(reconnect=True)",
        "                    await self._close(reconnect=True)", None, kind='twin',
        note='the finally clause still clears the event: behaviour preserved')

# round 8: C19.e parsed entries are objects of their parse
AC = 'rsocket/extensions/authentication_content.py'
variant_multi('b-auth-registry-of-instances', ['C19'], [
    (AC, """        self.authentication = authentication_item_factory(authentication_type)()
""", """        self.authentication = authentication_item_factory(authentication_type)
"""),
    (AC, """    WellKnownAuthenticationTypes.SIMPLE.value.name: AuthenticationSimple,
    WellKnownAuthenticationTypes.BEARER.value.name: AuthenticationBearer,""",
     """    WellKnownAuthenticationTypes.SIMPLE.value.name: AuthenticationSimple(),
    WellKnownAuthenticationTypes.BEARER.value.name: AuthenticationBearer(),""")],
    ('C19.e', 'AuthenticationContent.parse'))
variant_multi('b-composite-item-memoised-per-type', ['C19'], [
    ('rsocket/extensions/composite_metadata.py', """            item = metadata_item_factory(metadata_encoding)()
""", """            item = _items.setdefault(metadata_encoding, metadata_item_factory(metadata_encoding)())
"""),
    ('rsocket/extensions/composite_metadata.py', "_default = object()\n", "_default = object()\n_items = {}\n")],
    ('C19.e', 'CompositeMetadata.parse'))
variant('t-auth-entry-class-in-a-local', ['C19'], AC,
        """        self.authentication = authentication_item_factory(authentication_type)()
""", """        item_class = authentication_item_factory(authentication_type)
        self.authentication = item_class()
""", kind='twin')

# round 8: C15.e the watchdog alone decides that the peer is dead
variant('b-liveness-predicate-reads-the-clock', ['C15'], 'rsocket/rsocket_client.py',
        "        return self._is_server_alive\n",
        """        return (self._is_server_alive
                and datetime.now() - self._last_server_keepalive <= self._max_lifetime_period)
""", ('C15.e', 'RSocketClient.is_server_alive'))
variant('b-liveness-flag-cleared-by-the-emitter', ['C15'], 'rsocket/rsocket_client.py',
        """    def _update_last_keepalive(self):
        self._last_server_keepalive = datetime.now()
""", """    def _update_last_keepalive(self):
        self._is_server_alive = self._last_server_keepalive is not None
        self._last_server_keepalive = datetime.now()
""", ('C15.e', 'store to _is_server_alive'))
variant('t-liveness-predicate-through-a-local', ['C15'], 'rsocket/rsocket_client.py',
        "        return self._is_server_alive\n",
        """        alive = bool(self._is_server_alive)
        return alive
""", kind='twin')

# round 8: C16.f the frame logger cannot fail on the content of a frame
variant('b-error-frame-logged-as-text', ['C16'], 'rsocket/frame_logger.py',
        """        frame.error_code,
        safe_len(frame.data)
""", """        frame.error_code,
        (frame.data or b'').decode('utf-8')
""", ('C16.f', 'log_error'))
variant('t-error-frame-logged-as-lenient-text', ['C16'], 'rsocket/frame_logger.py',
        """        frame.error_code,
        safe_len(frame.data)
""", """        frame.error_code,
        (frame.data or b'').decode('utf-8', errors='replace')
""", kind='twin')

# round 8: C18.k no wire buffer becomes a dictionary key
variant('b-custom-mime-name-stays-a-slice', ['C18'], 'rsocket/helpers.py',
        "        metadata_encoding = bytes(buffer[1:1 + real_mime_type_length])",
        "        metadata_encoding = buffer[1:1 + real_mime_type_length]", ('C18.k', 'hashes a wire buffer'))
variant_multi('b-custom-mime-name-copied-at-one-lookup-only', ['C18'], [
    ('rsocket/helpers.py', "        metadata_encoding = bytes(buffer[1:1 + real_mime_type_length])",
     "        metadata_encoding = buffer[1:1 + real_mime_type_length]"),
    ('rsocket/extensions/composite_metadata.py',
     "    return metadata_item_factory_by_type.get(metadata_encoding, CompositeMetadataItem)",
     "    return metadata_item_factory_by_type.get(bytes(metadata_encoding), CompositeMetadataItem)")],
    ('C18.k', 'get_by_name'))
variant('b-route-looked-up-by-raw-tag', ['C18'], 'rsocket/extensions/helpers.py',
        "            return item.tags[0].decode()", "            return _routes.get(item.tags[0], item.tags[0]).decode()",
        ('C18.k', 'hashes a wire buffer'))
variant_multi('t-custom-mime-name-copied-by-the-caller', ['C18'], [
    ('rsocket/helpers.py', "        metadata_encoding = bytes(buffer[1:1 + real_mime_type_length])",
     "        metadata_encoding = buffer[1:1 + real_mime_type_length]"),
    ('rsocket/helpers.py', "    return metadata_encoding, offset\n", "    return bytes(metadata_encoding), offset\n")],
    kind='twin')

# round 8: C12.k str() of a library exception cannot fail
variant('b-exception-text-is-the-first-argument', ['C12'], 'rsocket/exceptions.py',
        """class RSocketError(Exception):
    pass
""", """class RSocketError(Exception):

    def __str__(self) -> str:
        return self.args[0] if self.args else self.__class__.__name__
""", ('C12.k', 'RSocketError.__str__'))
variant('b-stream-in-use-text-is-the-stream-id', ['C12'], 'rsocket/exceptions.py',
        """        self.stream_id = stream_id
""", """        self.stream_id = stream_id

    def __str__(self) -> str:
        return self.stream_id
""", ('C12.k', 'RSocketStreamIdInUse.__str__'))
variant('t-unknown-route-text-is-the-route', ['C12'], 'rsocket/exceptions.py',
        """        self.route_id = route_id
""", """        self.route_id = route_id

    def __str__(self) -> str:
        return self.route_id or 'unknown route'
""", kind='twin')
variant('t-exception-text-names-the-class', ['C12'], 'rsocket/exceptions.py',
        """class RSocketError(Exception):
    pass
""", """class RSocketError(Exception):

    def __str__(self) -> str:
        return str(self.args[0]) if self.args else self.__class__.__name__.lower()
""", kind='twin')

# C01.m load balancer
LBR = 'rsocket/load_balancer/load_balancer_rsocket.py'
variant('b-balancer-random-index-inclusive', ['C01'], 'rsocket/load_balancer/random_client.py',
        "random.randint(0, len(self._pool) - 1)", "random.randint(0, len(self._pool))",
        ('C01.m', 'LoadBalancerRandom.select'))
variant('b-balancer-cursor-not-wrapped', ['C01'], 'rsocket/load_balancer/round_robin.py',
        "        self._current_index = (self._current_index + 1) % len(self._pool)",
        "        self._current_index = self._current_index + 1 if self._current_index < len(self._pool) else 0",
        ('C01.m', 'LoadBalancerRoundRobin.select'))
variant('b-balancer-channel-drops-the-publisher', ['C01'], LBR,
        """            payload, publisher, sending_done
""", """            payload, sending_done=sending_done
""", ('C01.m', 'LoadBalancerRSocket.request_channel'))
variant('b-balancer-stream-served-as-response', ['C01'], LBR,
        "        return self._select_client().request_stream(payload)",
        "        return self._select_client().request_response(payload)",
        ('C01.m', 'LoadBalancerRSocket.request_stream'))
variant('b-balancer-selects-twice', ['C01'], LBR,
        "        return self._select_client().fire_and_forget(payload)",
        """        self._select_client()
        return self._select_client().fire_and_forget(payload)""",
        ('C01.m', 'LoadBalancerRSocket.fire_and_forget'))
variant('t-balancer-client-in-a-local', ['C01'], LBR,
        "        return self._select_client().request_response(payload)",
        """        client = self._strategy.select()
        result = client.request_response(payload)
        return result""", kind='twin')
variant('t-balancer-randrange', ['C01'], 'rsocket/load_balancer/random_client.py',
        "random.randint(0, len(self._pool) - 1)", "random.randrange(len(self._pool))", kind='twin')
variant('t-balancer-cursor-read-after-advance', ['C01'], 'rsocket/load_balancer/round_robin.py',
        """        client = self._pool[self._current_index]
        self._current_index = (self._current_index + 1) % len(self._pool)
        return client""", """        self._current_index = (self._current_index + 1) % len(self._pool)
        return self._pool[self._current_index]""", kind='twin')

# C12.l the error conversions keep code and text
variant('b-protocol-error-sent-as-application-error', ['C12', 'C16', 'C13'], 'rsocket/frame.py',
        "        frame.error_code = exception.error_code\n", "        frame.error_code = ErrorCode.APPLICATION_ERROR\n",
        ('C12.l', 'exception_to_error_frame'))
variant('b-received-error-code-test-inverted', ['C12', 'C07'], 'rsocket/frame.py',
        "    if frame.error_code != ErrorCode.APPLICATION_ERROR:", "    if frame.error_code == ErrorCode.APPLICATION_ERROR:",
        ('C12.l', 'error_frame_to_exception'))
variant('b-received-error-code-replaced', ['C07', 'C16'], 'rsocket/frame.py',
        "        return RSocketProtocolError(frame.error_code, data=frame.data.decode())",
        "        return RSocketProtocolError(ErrorCode.CONNECTION_ERROR, data=frame.data.decode())",
        ('C12.l', 'error_frame_to_exception'))
variant('b-protocol-error-forgets-its-data', ['C12'], 'rsocket/exceptions.py',
        "        self.data = data\n", "        self.data = None\n", ('C12.l', 'RSocketProtocolError.__init__'))
variant('t-error-frame-built-in-another-order', ['C12', 'C16'], 'rsocket/frame.py',
        """    if isinstance(exception, RSocketProtocolError):
        frame.error_code = exception.error_code
        frame.data = ensure_bytes(exception.data)
    else:
        frame.error_code = ErrorCode.APPLICATION_ERROR
        frame.data = ensure_bytes(str(exception))
""", """    if not isinstance(exception, RSocketProtocolError):
        code, data = ErrorCode.APPLICATION_ERROR, str(exception)
    else:
        code, data = exception.error_code, exception.data
    frame.data = ensure_bytes(data)
    frame.error_code = code
""", kind='twin')

# C02.h the decoder's entry point
variant('b-decoder-refuses-header-only-frames', ['C02'], 'rsocket/frame.py',
        "    if len(buffer) < HEADER_LENGTH:\n        raise ParseError", "    if len(buffer) <= HEADER_LENGTH:\n        raise ParseError",
        ('C02.h', 'parse_or_ignore'))
variant('b-decoder-returns-only-ignored-frames', ['C02'], 'rsocket/frame.py',
        "        if not is_frame_to_ignore(frame):\n            return frame",
        "        if is_frame_to_ignore(frame):\n            return frame", ('C02.h', 'parse_or_ignore'))
variant('b-decoder-ignore-flag-inverted', ['C02'], 'rsocket/frame.py',
        "        if not header.flags_ignore:\n            raise RSocketProtocolError(ErrorCode.CONNECTION_ERROR",
        "        if header.flags_ignore:\n            raise RSocketProtocolError(ErrorCode.CONNECTION_ERROR",
        ('C02.h', 'parse_or_ignore'))
variant('b-decoder-parses-past-the-header', ['C02'], 'rsocket/frame.py',
        "        frame.parse(buffer, 0)\n\n        if not is_frame_to_ignore", "        frame.parse(buffer, HEADER_LENGTH)\n\n        if not is_frame_to_ignore",
        ('C02.h', 'parse_or_ignore'))
variant('b-ignore-every-metadata-push', ['C02'], 'rsocket/frame.py',
        "    if isinstance(frame, MetadataPushFrame) and frame.stream_id != CONNECTION_STREAM_ID:",
        "    if isinstance(frame, MetadataPushFrame) or frame.stream_id != CONNECTION_STREAM_ID:",
        ('C02.h', 'is_frame_to_ignore'))
variant('t-decoder-guard-clauses', ['C02'], 'rsocket/frame.py',
        """        if not is_frame_to_ignore(frame):
            return frame
""", """        if is_frame_to_ignore(frame):
            return None
        return frame
""", kind='twin')
variant('t-decoder-short-test-other-way', ['C02'], 'rsocket/frame.py',
        "    if len(buffer) < HEADER_LENGTH:\n        raise ParseError", "    if HEADER_LENGTH > len(buffer):\n        raise ParseError",
        kind='twin')

# C01.n connection pumps
variant('b-receive-loop-only-when-dead', ['C01'], RB,
        "        while self.is_server_alive():\n            next_frame_generator",
        "        while not self.is_server_alive():\n            next_frame_generator", ('C01.n', '_receiver_listen'))
variant('b-send-loop-only-when-dead', ['C01'], RB,
        "                while self.is_server_alive():\n                    async with",
        "                while not self.is_server_alive():\n                    async with", ('C01.n', '_sender'))
variant('b-tasks-started-only-when-closing', ['C01'], RB,
        "        if not self._is_closing:\n            return asyncio.create_task(task_factory())",
        "        if self._is_closing:\n            return asyncio.create_task(task_factory())",
        ('C01.n', '_start_task_if_not_closing'))
variant('b-metadata-push-not-queued', ['C01'], RB,
        "        frame = to_metadata_push_frame(metadata)\n        self.send_frame(frame)\n",
        "        frame = to_metadata_push_frame(metadata)\n", ('C01.n', 'metadata_push'))
variant('b-invalid-frames-skipped-before-dispatch', ['C01'], RB,
        "            async for frame in next_frame_generator:\n                try:",
        "            async for frame in next_frame_generator:\n                if frame.stream_id % 2 == 0:\n                    continue\n                try:",
        ('C01.n', 'every frame the transport yields'))
variant('t-receive-loop-while-true', ['C01'], RB,
        "        while self.is_server_alive():\n            next_frame_generator",
        "        while True:\n            next_frame_generator", kind='twin')
variant('t-start-task-guard-clause', ['C01'], RB,
        "        if not self._is_closing:\n            return asyncio.create_task(task_factory())",
        "        if self._is_closing:\n            return None\n        return asyncio.create_task(task_factory())", kind='twin')

# C20.l the empty-response filter
variant('b-response-with-one-empty-part-withheld', ['C20'], 'rsocket/helpers.py',
        "    return safe_len(payload.data) == 0 and safe_len(payload.metadata) == 0",
        "    return safe_len(payload.data) == 0 or safe_len(payload.metadata) == 0",
        ('C20.l', 'is_non_empty_payload'))
variant('b-response-filter-ignores-metadata', ['C20'], 'rsocket/helpers.py',
        "    return safe_len(payload.data) == 0 and safe_len(payload.metadata) == 0",
        "    return safe_len(payload.data) == 0", ('C20.l', 'is_non_empty_payload'))
variant('b-rx-response-distinct', ['C20'], 'rsocket/reactivex/reactivex_client.py',
        "            operators.filter(is_non_empty_payload)\n",
        "            operators.filter(is_non_empty_payload),\n            operators.take_while(lambda p: p.data is not None)\n",
        ('C20.l', 'ReactiveXClient.request_response'))
variant('t-response-filter-by-truthiness', ['C20'], 'rsocket/helpers.py',
        "    return safe_len(payload.data) == 0 and safe_len(payload.metadata) == 0",
        "    return not payload.data and not payload.metadata", kind='twin')

# C11.e the cancel helper cancels
variant('b-cancel-helper-only-waits', ['C11'], 'rsocket/helpers.py',
        "        task.cancel()\n\n        try:\n            await task", "        try:\n            await task",
        ('C11.e', 'cancel_if_task_exists / cancels and awaits'))
variant('b-cancel-helper-does-not-wait', ['C11'], 'rsocket/helpers.py',
        "        try:\n            await task\n        except asyncio.CancelledError:",
        "        try:\n            await asyncio.sleep(0)\n        except asyncio.CancelledError:",
        ('C11.e', 'cancel_if_task_exists / cancels and awaits'))
variant('b-cancel-helper-skips-running-tasks', ['C11'], 'rsocket/helpers.py',
        "    if task is not None and not task.done():", "    if task is not None and task.done():",
        ('C11.e', 'cancel_if_task_exists / cancels and awaits'))

# C05.h frame builders hand out fresh frames
variant_multi('b-cancel-frame-shared', ['C09', 'C05'], [
    ('rsocket/frame_builders.py', "def to_cancel_frame(stream_id: int):\n    frame = CancelFrame()",
     "_cancel_frame = CancelFrame()\n\n\ndef to_cancel_frame(stream_id: int):\n    frame = _cancel_frame")],
    ('C05.h', 'to_cancel_frame'))
variant_multi('b-keepalive-frame-cached', ['C05'], [
    ('rsocket/frame_builders.py', "def to_keepalive_frame(data: bytes):", "@functools.lru_cache(maxsize=8)\ndef to_keepalive_frame(data: bytes):"),
    ('rsocket/frame_builders.py', "from typing import Optional\n", "import functools\nfrom typing import Optional\n")],
    ('C05.h', 'to_keepalive_frame'))

# C07.f on_subscribe first
variant('b-rx-publisher-subscribes-source-first', ['C07'], 'rsocket/rx_support/back_pressure_publisher.py',
        """        super().subscribe(subscriber)
        self._feedback = Subject()
        observable = self._factory(self._feedback)
        observable.subscribe(SubscriberAdapter(subscriber))
""", """        self._feedback = Subject()
        observable = self._factory(self._feedback)
        adapter = SubscriberAdapter(subscriber)
        observable.subscribe(adapter)
        super().subscribe(subscriber)
""", ('C07.f', 'InternalBackPressurePublisher.subscribe'))
variant('t-rx-publisher-adapter-built-first', ['C07'], 'rsocket/reactivex/back_pressure_publisher.py',
        """        super().subscribe(subscriber)
        self._feedback = Subject()
        observable = self._factory(self._feedback)
        observable.subscribe(SubscriberAdapter(subscriber))
""", """        adapter = SubscriberAdapter(subscriber)
        self._feedback = Subject()
        observable = self._factory(self._feedback)
        super().subscribe(subscriber)
        observable.subscribe(adapter)
""", kind='twin')

variant_multi('b-request-n-frame-kept-per-stream', ['C06', 'C05'], [
    ('rsocket/handlers/request_stream_requester.py', "            return\n\n        self.send_request_n(n)",
     """            return

        if getattr(self, '_request_n_frame', None) is None:
            self._request_n_frame = to_request_n_frame(self.stream_id, n)
        self._request_n_frame.request_n = n
        self.socket.send_frame(self._request_n_frame)"""),
    ('rsocket/handlers/request_stream_requester.py', "from rsocket.frame_builders import to_request_stream_frame",
     "from rsocket.frame_builders import to_request_stream_frame, to_request_n_frame")],
    ('C05.h', 'RequestStreamRequester.request'))

# C08.j COMPLETE on REQUEST_CHANNEL iff there is no publisher
RCR = 'rsocket/handlers/request_channel_requester.py'
variant_multi('b-channel-complete-by-subscription-state', ['C08'], [
    (RCR, "                                     complete=self._publisher is None,",
     "                                     complete=self.subscriber.subscription is None,"),
    (RCR, "        if self._publisher is None:\n            self.mark_completed_and_finish(sent=True)",
     "        if self.subscriber.subscription is None:\n            self.mark_completed_and_finish(sent=True)")],
    ('C08.j', 'RequestChannelRequester.subscribe'))
variant('b-channel-request-never-complete', ['C08'], RCR,
        "                                     complete=self._publisher is None,",
        "                                     complete=False,", ('C08.j', 'RequestChannelRequester.subscribe'))
variant_multi('t-channel-complete-through-a-local', ['C08'], [
    (RCR, "                                     complete=self._publisher is None,",
     "                                     complete=not self._has_publisher(),"),
    (RCR, "    def subscribe(self, subscriber: Subscriber):",
     "    def _has_publisher(self):\n        return self._publisher is not None\n\n    def subscribe(self, subscriber: Subscriber):")],
    kind='twin')

# C04.j marker queues are read item by item
variant('b-quic-listener-batches-the-queue', ['C04'], 'rsocket/transports/aioquic_transport.py',
        "                data = await self._incoming_bytes_queue.get()\n",
        "                data = await self._incoming_bytes_queue.get()\n                while not self._incoming_bytes_queue.empty():\n                    data += self._incoming_bytes_queue.get_nowait()\n",
        ('C04.j', 'RSocketQuicTransport.incoming_data_listener'))
variant('b-messaging-generator-yields-the-marker', ['C04'], 'rsocket/transports/abstract_messaging.py',
        "        if isinstance(frame, Exception):\n            raise frame\n", "", ('C04', ''))
variant('t-quic-listener-logs-before-the-test', ['C04'], 'rsocket/transports/aioquic_transport.py',
        "                data = await self._incoming_bytes_queue.get()\n",
        "                data = await self._incoming_bytes_queue.get()\n                logger().debug('Quic - item dequeued')\n",
        kind='twin')

# C03.g a short read is short of what that read asked for
variant('b-metadata-tail-test-against-the-later-budget', ['C03'], 'rsocket/frame_fragmenter.py',
        "            if len(metadata_fragment) < self._get_next_fragment_body_size():",
        "            if len(metadata_fragment) < self.next_frame_header_size:", ('C03.g', 'FrameFragmenter.__iter__'))
variant('t-metadata-read-size-in-a-local', ['C03'], 'rsocket/frame_fragmenter.py',
        """            metadata_fragment = metadata_reader.read(self._get_next_fragment_body_size())
            self._metadata_read_length += len(metadata_fragment)

            if len(metadata_fragment) == 0:
                last_metadata_fragment = b''
                break

            if len(metadata_fragment) < self._get_next_fragment_body_size():""",
        """            wanted = self._get_next_fragment_body_size()
            metadata_fragment = metadata_reader.read(wanted)
            self._metadata_read_length += len(metadata_fragment)

            if len(metadata_fragment) == 0:
                last_metadata_fragment = b''
                break

            if len(metadata_fragment) < wanted:""", kind='twin')

# C01.o DefaultSubscriber forwards
DS = 'reactivestreams/subscriber.py'
variant('b-default-subscriber-drops-the-completion-flag', ['C01'], DS,
        "            self._on_next(value, is_complete)", "            self._on_next(value, False)",
        ('C01.o', 'DefaultSubscriber.on_next'))
variant('b-default-subscriber-error-to-complete', ['C01'], DS,
        "            self._on_error(exception)", "            self._on_complete()", ('C01.o', 'DefaultSubscriber.on_error'))
variant('b-default-subscriber-callbacks-crossed', ['C01'], DS,
        "        self._on_complete = on_complete\n        self._on_error = on_error",
        "        self._on_complete = on_error\n        self._on_error = on_complete", ('C01.o', 'DefaultSubscriber'))
variant('b-default-subscriber-forgets-subscription', ['C01'], DS,
        "        self.subscription = subscription\n\n        if self._on_subscribe is not None:",
        "        if self._on_subscribe is not None:\n            self.subscription = subscription",
        ('C01.o', 'DefaultSubscriber.on_subscribe'))
variant('t-default-subscriber-truthiness', ['C01'], DS,
        "        if self._on_complete is not None:\n            self._on_complete()",
        "        if self._on_complete:\n            self._on_complete()", kind='twin')

# C20.m a handler per connection
variant('b-rx-handler-factory-shares-the-adapter', ['C20'], 'rsocket/rx_support/rx_handler_adapter.py',
        "    def create_handler():\n        return RxHandlerAdapter(handler_factory())",
        "    adapter = RxHandlerAdapter(handler_factory())\n\n    def create_handler():\n        return adapter",
        ('C20.m', 'rx_handler_factory'))
variant('b-reactivex-handler-factory-shares-the-delegate', ['C20'], 'rsocket/reactivex/reactivex_handler_adapter.py',
        "    def create_handler():\n        return ReactivexHandlerAdapter(handler_factory())",
        "    delegate = handler_factory()\n\n    def create_handler():\n        return ReactivexHandlerAdapter(delegate)",
        ('C20.m', 'reactivex_handler_factory'))
variant('t-reactivex-handler-factory-with-a-local', ['C20'], 'rsocket/reactivex/reactivex_handler_adapter.py',
        "    def create_handler():\n        return ReactivexHandlerAdapter(handler_factory())",
        "    def create_handler():\n        delegate = handler_factory()\n        adapter = ReactivexHandlerAdapter(delegate)\n        return adapter",
        kind='twin')

# C19.b the unknown-route slot in table form
RRT = 'rsocket/routing/request_router.py'
_UNK_OLD = """        if frame_type == FrameType.REQUEST_RESPONSE:
            return self._unknown.response
        elif frame_type == FrameType.REQUEST_STREAM:
            return self._unknown.stream
        elif frame_type == FrameType.REQUEST_CHANNEL:
            return self._unknown.channel
        elif frame_type == FrameType.REQUEST_FNF:
            return self._unknown.fire_and_forget
        elif frame_type == FrameType.METADATA_PUSH:
            return self._unknown.metadata_push
"""
_UNK_TABLE = """        unknown = self._unknown

        return {
            FrameType.REQUEST_RESPONSE: unknown.response,
            FrameType.REQUEST_STREAM: unknown.stream,
            FrameType.REQUEST_CHANNEL: unknown.%s,
            FrameType.REQUEST_FNF: unknown.fire_and_forget,
            FrameType.METADATA_PUSH: unknown.metadata_push,
        }.get(frame_type)
"""
variant('b-unknown-slot-table-channel-row-copied', ['C19'], RRT, _UNK_OLD, _UNK_TABLE % 'stream',
        ('C19.b', 'routing table row / channel'))
variant('t-unknown-slot-as-a-table', ['C19'], RRT, _UNK_OLD, _UNK_TABLE % 'channel', kind='twin')

# C12.m an empty message is not the end
variant('b-quart-feeder-ends-on-empty-message', ['C12'], 'rsocket/transports/quart_websocket.py',
        "                data = await websocket.receive()\n",
        "                data = await websocket.receive()\n\n                if not data:\n                    break\n",
        ('C12.m', 'TransportQuartWebsocket'))
variant('t-quart-feeder-skips-empty-messages', ['C12'], 'rsocket/transports/quart_websocket.py',
        "                data = await websocket.receive()\n",
        "                data = await websocket.receive()\n\n                if not data:\n                    continue\n",
        kind='twin')

# C13.h the cursor moves only by the successor step
variant('b-finish-steps-the-cursor-back', ['C13'], 'rsocket/stream_control.py',
        "        self._streams.pop(stream_id, None)\n",
        "        if self._streams.pop(stream_id, None) is None and stream_id == self._current_stream_id:\n            self._current_stream_id = (stream_id - 2) & self._maximum_stream_id\n",
        ('C13.h', 'StreamControl.finish_stream'))
variant('t-successor-through-two-helpers', ['C13'], 'rsocket/stream_control.py',
        "    def _increment_stream_id(self):\n        self._current_stream_id = (self._current_stream_id + 2) & self._maximum_stream_id",
        "    def _increment_stream_id(self):\n        self._step()\n\n    def _step(self):\n        self._current_stream_id = (self._current_stream_id + 2) & self._maximum_stream_id",
        kind='twin')

# C04.k decoded frames are yielded
variant('b-parser-keeps-decoded-frames', ['C04'], 'rsocket/frame_parser.py',
        "                if new_frame is not None:\n                    yield new_frame\n",
        "                if new_frame is not None:\n                    pass\n", ('C04.k', 'FrameParser.receive_data'))
variant('b-parser-yields-ignored-frames', ['C04'], 'rsocket/frame_parser.py',
        "                if new_frame is not None:\n                    yield new_frame\n",
        "                yield new_frame\n", ('C04.k', 'FrameParser.receive_data'))
variant('b-parser-yields-only-ignored-frames', ['C04'], 'rsocket/frame_parser.py',
        "                if new_frame is not None:\n                    yield new_frame\n",
        "                if new_frame is None:\n                    yield new_frame\n", ('C04.k', 'FrameParser.receive_data'))

# C01.p responder set-up; collector count
variant('b-stream-responder-publisher-not-subscribed', ['C01'], 'rsocket/handlers/request_stream_responder.py',
        "        self.publisher.subscribe(self.subscriber)\n", "        pass\n", ('C01.p', 'RequestStreamResponder.setup'))
variant('b-channel-subscriber-for-the-wrong-stream', ['C01'], 'rsocket/handlers/request_cahnnel_common.py',
        "        self.subscriber = StreamSubscriber(self.stream_id, self.socket, self)",
        "        self.subscriber = StreamSubscriber(0, self.socket, self)", ('C01.p', 'setup'))
variant('b-collector-count-not-advanced', ['C01'], 'rsocket/awaitable/collector_subscriber.py',
        "        self._total_received_count += 1\n", "        pass\n", ('C01.h', 'cut-off'))
variant('b-collector-count-advanced-after-the-test', ['C01'], 'rsocket/awaitable/collector_subscriber.py',
        """        self._received_count += 1
        self._total_received_count += 1

        if is_complete:""", """        self._received_count += 1
        reached = self._limit_count is not None and self._limit_count == self._total_received_count
        self._total_received_count += 1

        if reached and not is_complete:
            self.subscription.cancel()
            self.is_done.set()
        elif is_complete:""", ('C01.h', 'cut-off'))
variant('t-collector-count-expanded', ['C01'], 'rsocket/awaitable/collector_subscriber.py',
        "        self._total_received_count += 1\n", "        self._total_received_count = self._total_received_count + 1\n",
        kind='twin')

# C01.h the adapter does not shield the socket's future
variant_multi('b-awaitable-response-shielded', ['C10', 'C09', 'C01'], [
    ('rsocket/awaitable/awaitable_rsocket.py', "        return await self._rsocket.request_response(payload)",
     "        return await asyncio.shield(self._rsocket.request_response(payload))")],
    ('C01.h', 'AwaitableRSocket.request_response'))
variant('t-awaitable-response-through-a-local', ['C10', 'C01'], 'rsocket/awaitable/awaitable_rsocket.py',
        "        return await self._rsocket.request_response(payload)",
        "        response = await self._rsocket.request_response(payload)\n        return response", kind='twin')

# C06.a replenishment of the Rx subscribers
FRP = 'rsocket/reactivex/from_rsocket_publisher.py'
variant('b-rx-observer-subscriber-never-replenishes', ['C06', 'C20'], FRP,
        "                self.subscription.request(self.limit_rate)\n", "                pass\n",
        ('C06.a', 'RxSubscriberFromObserver'))
variant('b-rx-trigger-does-not-wait', ['C06', 'C20'], FRP,
        "            await subscriber.get_next_n.wait()\n", "            await asyncio.sleep(0)\n",
        ('C06.a', '_trigger_next_request_n'))
variant('b-rx-trigger-does-not-clear', ['C06', 'C20'], FRP,
        "            subscriber.get_next_n.clear()\n", "", ('C06.a', '_trigger_next_request_n'))
variant('t-rx-trigger-clears-before-requesting', ['C06', 'C20'], FRP,
        "            subscriber.subscription.request(limit_rate)\n            subscriber.get_next_n.clear()\n",
        "            subscriber.get_next_n.clear()\n            subscriber.subscription.request(limit_rate)\n", kind='twin')

# C20.e which case of observable_to_publisher gives which
variant('b-observable-to-publisher-none-test-inverted', ['C20'], 'rsocket/reactivex/back_pressure_publisher.py',
        "    if observable is None:\n        return observable", "    if observable is not None:\n        return None",
        ('C20.e', 'observable_to_publisher'))
variant('b-observable-to-publisher-factory-test-inverted', ['C20'], 'rsocket/rx_support/back_pressure_publisher.py',
        "    if isinstance(observable, ObservableBackpressureFactory):", "    if not isinstance(observable, ObservableBackpressureFactory):",
        ('C20.e', 'observable_to_publisher'))

# C20.n feeder errors
variant('b-rx-feeder-swallows-generator-failure', ['C20'], 'rsocket/reactivex/back_pressure_publisher.py',
        """                        except Exception as exception:
                            logger().error(str(exception), exc_info=True)
                            observer.on_error(exception)
                            return""", """                        except Exception as exception:
                            logger().error(str(exception), exc_info=True)
                            return""", ('C20.n', 'observable_from_async_generator'))
variant('b-rx-feeder-error-event-not-final', ['C20'], 'rsocket/rx_support/back_pressure_publisher.py',
        """                            observer.on_error(event.exception)
                            return""", """                            observer.on_error(event.exception)""",
        ('C20.n', 'from_async_event_iterator'))

# C18.l signedness
variant('b-simple-auth-username-length-signed', ['C18'], 'rsocket/extensions/authentication.py',
        "        username_length = struct.unpack('>I', b'\\x00\\x00' + buffer[:2])[0]",
        "        username_length = struct.unpack_from('>h', buffer)[0]", ('C18.l', 'AuthenticationSimple'))
variant('b-lease-ttl-read-signed', ['C02'], 'rsocket/frame.py',
        "struct.unpack_from('>II'", "struct.unpack_from('>iI'", ('C18.l', 'LeaseFrame'))

# C14.b the expiry test is exact
variant('b-lease-age-in-whole-seconds', ['C14'], 'rsocket/lease.py',
        "        if self._lease_created_at + self.maximum_lease_time <= datetime.now():",
        "        lease_age = datetime.now() - self._lease_created_at\n\n        if lease_age.seconds >= self.maximum_lease_time.total_seconds():",
        ('C14.b', 'expired lease refuses'))
variant('t-lease-age-as-a-difference', ['C14'], 'rsocket/lease.py',
        "        if self._lease_created_at + self.maximum_lease_time <= datetime.now():",
        "        lease_age = datetime.now() - self._lease_created_at\n\n        if lease_age >= self.maximum_lease_time:",
        kind='twin')
variant('t-lease-age-in-total-seconds', ['C14'], 'rsocket/lease.py',
        "        if self._lease_created_at + self.maximum_lease_time <= datetime.now():",
        "        if (datetime.now() - self._lease_created_at).total_seconds() >= self.maximum_lease_time.total_seconds():",
        kind='twin')

# C04.j the invalid-frame marker is not an exception
variant('b-invalid-frame-marker-is-an-exception', ['C12', 'C04'], 'rsocket/frame.py',
        "class InvalidFrame:", "class InvalidFrame(ParseError):", ('C04.j', 'parser output'))

# C13.i an allocated id is registered in the same call
variant_multi('b-stream-requester-registered-at-subscribe', ['C13'], [
    ('rsocket/rsocket_base.py', """        requester = RequestStreamRequester(self, payload)
        return self.register_new_stream(requester)""", """        requester = RequestStreamRequester(self, payload)
        requester.stream_id = self._allocate_stream()
        return requester"""),
    ('rsocket/handlers/request_stream_requester.py', "        self._requested = True\n        self._send_stream_request(self.payload)",
     "        self._requested = True\n        self.socket._register_stream(self.stream_id, self)\n        self._send_stream_request(self.payload)")],
    ('C13.i', 'RSocketBase.request_stream'))
variant('t-register-new-stream-inlined', ['C13'], 'rsocket/rsocket_base.py',
        """        requester = RequestStreamRequester(self, payload)
        return self.register_new_stream(requester)""", """        requester = RequestStreamRequester(self, payload)
        stream_id = self._allocate_stream()
        self._register_stream(stream_id, requester)
        return requester""", kind='twin')

# round 10: C11.k termination event, C15.b hook after the transport, C20.o default of an empty response
variant('b-quic-orderly-close-not-signalled', ['C11'], 'rsocket/transports/aioquic_transport.py',
        "            self.frame_queue.put_nowait(RSocketTransportError())\n",
        "            if event.error_code != 0:\n                self.frame_queue.put_nowait(RSocketTransportError())\n",
        ('C11.k', 'every termination'))
variant('b-keepalive-clock-starts-before-the-transport', ['C15'], RB,
        "                transport = await self._current_transport()\n\n                self._before_sender()\n",
        "                self._before_sender()\n                transport = await self._current_transport()\n\n",
        ('C15.b', 'only after the transport'))
variant('b-rx-empty-response-echoes-the-request', ['C20'], 'rsocket/rx_support/rx_handler_adapter.py',
        "            operators.default_if_empty(Payload()),", "            operators.default_if_empty(payload),",
        ('C20.o', 'RxHandlerAdapter.request_response'))

# C17.h (F22) _stop_tasks is safe against itself and the connect() that follows
variant('b-stop-tasks-awaits-the-current-task', ['C17'], RB,
        "        if receiver_task is not asyncio.current_task():\n            await cancel_if_task_exists(receiver_task)\n\n            if self._receiver_task is receiver_task:\n                self._receiver_task = None",
        "        await cancel_if_task_exists(receiver_task)\n\n        if self._receiver_task is receiver_task:\n            self._receiver_task = None",
        ('C17.h', 'not awaited from inside itself'))
variant('b-stop-tasks-stale-clear', ['C17'], RB,
        "            if self._receiver_task is receiver_task:\n                self._receiver_task = None",
        "            self._receiver_task = None", ('C17.h', 'cleared only if it still holds'))
variant('b-client-stop-tasks-stale-keepalive-clear', ['C17'], 'rsocket/rsocket_client.py',
        "        if self._keepalive_task is keepalive_task:\n            self._keepalive_task = None",
        "        self._keepalive_task = None", ('C17.h', 'cleared only if it still holds'))

# C11.n (F23) the receiver does not wait for a task that awaits application code
variant('b-receiver-waits-for-the-watchdog', ['C11'], 'rsocket/rsocket_client.py',
        "            if keepalive_timeout_task is not None:\n                keepalive_timeout_task.cancel()",
        "            await cancel_if_task_exists(keepalive_timeout_task)", ('C11.n', '_receiver_listen'))
variant('b-watchdog-never-cancelled', ['C11'], 'rsocket/rsocket_client.py',
        "            if keepalive_timeout_task is not None:\n                keepalive_timeout_task.cancel()",
        "            pass", ('C11.e', 'local task keepalive_timeout_task'))

# round 11: C02.i byte order, C08.k SETUP is the client's
variant('b-position-packed-in-native-order', ['C02'], 'rsocket/frame_helpers.py',
        "        return struct.pack('>Q', position & MASK_63_BITS)", "        return struct.pack('Q', position & MASK_63_BITS)",
        ('C02.i', "struct format 'Q'"))
variant('b-tag-length-little-endian-short', ['C18'], 'rsocket/extensions/authentication.py',
        "struct.pack('>I'", "struct.pack('<I'", ('C02.i', 'struct format'))
variant_multi('b-base-aenter-connects', ['C08'], [
    (RB, "    async def __aenter__(self) -> 'RSocketBase':\n        return self",
     "    async def __aenter__(self) -> 'RSocketBase':\n        await self.connect()\n        return self")],
    ('C08.k', 'RSocketBase.__aenter__'))

# round 11: C19.f, C15.b current handler, C06.a collector, shares
variant_multi('b-route-signature-filtered', ['C19'], [
    (RRT, "        self.signature = signature(method)",
     "        self.signature = signature(method).replace(parameters=[p for p in signature(method).parameters.values() if p.kind == p.POSITIONAL_OR_KEYWORD])")],
    ('C19.f', 'RouteInfo.__init__'))
variant('t-route-signature-through-a-local', ['C19'], RRT,
        "        self.signature = signature(method)", "        method_signature = signature(method)\n        self.signature = method_signature",
        kind='twin')
variant('b-collector-requests-at-on-subscribe', ['C06'], 'rsocket/awaitable/collector_subscriber.py',
        "        self.subscription = subscription\n", "        self.subscription = subscription\n        self.subscription.request(self._limit_rate)\n",
        ('C06.a', 'CollectorSubscriber'))

# C03.j reassembly cache entries
variant('b-reassembly-cache-evicts-by-count', ['C03', 'C01'], 'rsocket/frame_fragment_cache.py',
        "            self._frames_by_stream_id[frame.stream_id] = self._frame_fragment_builder(frame)\n",
        "            self._frames_by_stream_id[frame.stream_id] = self._frame_fragment_builder(frame)\n            while len(self._frames_by_stream_id) > 16:\n                self._frames_by_stream_id.pop(next(iter(self._frames_by_stream_id)))\n",
        ('C03.j', 'FrameFragmentCache.append'))

# round 11: C14.d atomic release, C16.g names unchanged
variant('b-lease-release-yields-per-request', ['C14'], RB,
        "            self.send_frame(self._request_queue.get_nowait())\n            self._request_queue.task_done()\n",
        "            self.send_frame(self._request_queue.get_nowait())\n            self._request_queue.task_done()\n            await asyncio.sleep(0)\n",
        ('C14.d', 'RSocketBase.handle_lease'))
variant('b-encoding-names-lower-cased', ['C16'], 'rsocket/extensions/mimetypes.py',
        "    return ensure_bytes(encoding)\n", "    return ensure_bytes(encoding).lower()\n", ('C16.g', 'ensure_encoding_name'))

# C12.n inspection of application futures
RRR = 'rsocket/handlers/request_response_responder.py'
variant('b-responder-fast-path-inspects-a-cancelled-future', ['C12'], RRR,
        "        self.future.add_done_callback(self.future_done)\n",
        "        if self.future.done() and not self.future.exception():\n            self.future_done(self.future)\n        else:\n            self.future.add_done_callback(self.future_done)\n",
        ('C12.n', 'RequestResponseResponder.setup'))
variant('b-future-done-forgets-the-cancelled-case', ['C12'], RRR,
        "        if self.future.cancelled():\n            pass\n        elif not future.exception():",
        "        if not future.exception():", ('C12.n', 'RequestResponseResponder.future_done'))
variant('t-future-done-with-a-guard-clause', ['C12'], RRR,
        """        if self.future.cancelled():
            pass
        elif not future.exception():
            self.socket.send_payload(
                self.stream_id, future.result(), complete=True)
        else:
            self.socket.send_error(self.stream_id, future.exception())

        self._finish_stream()""",
        """        if self.future.cancelled():
            self._finish_stream()
            return

        if not future.exception():
            self.socket.send_payload(
                self.stream_id, future.result(), complete=True)
        else:
            self.socket.send_error(self.stream_id, future.exception())

        self._finish_stream()""", kind='twin')

# C11.o close() does not wait for the peer
variant('b-sender-cleanup-drains-the-transport', ['C11'], RB,
        "    async def _finally_sender(self):\n        pass",
        "    async def _finally_sender(self):\n        transport = self._current_transport()\n        if transport.done():\n            await transport.result().on_send_queue_empty()",
        ('C11.o', 'RSocketBase._finally_sender'))

# C11.p (F24) wait graph
variant('b-close-waits-for-the-reconnect-listener', ['C11'], 'rsocket/rsocket_client.py',
        "            if reconnect_task is not None and reconnect_task is not asyncio.current_task():\n                reconnect_task.cancel()",
        "            await cancel_if_task_exists(reconnect_task)", ('C11.p', 'wait cycle'))
variant('b-receiver-waits-for-the-watchdog-cycle', ['C11'], 'rsocket/rsocket_client.py',
        "            if keepalive_timeout_task is not None:\n                keepalive_timeout_task.cancel()",
        "            await cancel_if_task_exists(keepalive_timeout_task)", ('C11.p', 'wait cycle'))

# C04.l short fields fail
variant('b-position-decoded-leniently', ['C04', 'C12'], 'rsocket/frame_helpers.py',
        "        return struct.unpack('>Q', chunk)[0] & MASK_63_BITS", "        return int.from_bytes(chunk, 'big') & MASK_63_BITS",
        ('C04.l', 'unpack_position'))
variant('t-position-decoded-leniently-behind-a-length-test', ['C04'], 'rsocket/frame_helpers.py',
        "        return struct.unpack('>Q', chunk)[0] & MASK_63_BITS",
        "        if len(chunk) != 8:\n            raise struct.error('position needs 8 bytes')\n        return int.from_bytes(chunk, 'big') & MASK_63_BITS",
        kind='twin')

# C03.k read sizes positive
variant('b-mixed-fragment-reserves-the-metadata-length', ['C03'], 'rsocket/frame_fragmenter.py',
        "        data_fragment = data_reader.read(expected_data_fragment_length)\n",
        "        if len(last_metadata_fragment) > 0:\n            expected_data_fragment_length -= 3\n        data_fragment = data_reader.read(expected_data_fragment_length)\n",
        ('C03.k', 'FrameFragmenter.__iter__'))

# round 12: collector cancel after the end; credit deferred; shares
variant('b-collector-cancels-when-its-waiter-is-cancelled', ['C08', 'C01'], 'rsocket/awaitable/collector_subscriber.py',
        "        await self.is_done.wait()\n",
        "        try:\n            await self.is_done.wait()\n        except asyncio.CancelledError:\n            if self.subscription is not None:\n                self.subscription.cancel()\n            raise\n",
        ('C01.h', 'CollectorSubscriber.run'))
variant('t-collector-cancels-an-unfinished-stream-when-cancelled', ['C08'], 'rsocket/awaitable/collector_subscriber.py',
        "        await self.is_done.wait()\n",
        "        try:\n            await self.is_done.wait()\n        except asyncio.CancelledError:\n            if not self.is_done.is_set():\n                self.subscription.cancel()\n            raise\n",
        kind='twin')
variant('b-initial-credit-handed-over-a-loop-turn-later', ['C09', 'C06'], 'rsocket/handlers/request_stream_responder.py',
        "            self.subscriber.subscription.request(frame.initial_request_n)",
        "            asyncio.get_event_loop().call_soon(self.subscriber.subscription.request, frame.initial_request_n)",
        ('C06.a', 'RequestStreamResponder.frame_received/RequestStreamFrame'))

# C07.g synthetic error data is bytes
variant('b-close-sequence-error-text-as-str', ['C07'], RB,
        "            self.stop_all_streams()\n            self._fail_unsent_frames()",
        "            self.stop_all_streams(data='Connection closed')\n            self._fail_unsent_frames()", ('C07.g', 'stop_all_streams'))
variant('t-close-sequence-error-text-as-bytes-constant', ['C07', 'C12'], RB,
        "            self.stop_all_streams()\n            self._fail_unsent_frames()",
        "            self.stop_all_streams(data=b'Connection closed')\n            self._fail_unsent_frames()", kind='twin')

# C19.c nothing carried from one parameter to the next
variant_multi('b-collector-payload-value-carried-between-parameters', ['C19'], [
    ('rsocket/routing/request_router.py',
     "        route_kwargs = {}\n\n        for parameter in route_signature.parameters:",
     "        route_kwargs = {}\n        payload_data = payload\n\n        for parameter in route_signature.parameters:"),
    ('rsocket/routing/request_router.py',
     "            else:\n                payload_data = payload\n\n                if parameter_type",
     "            else:\n                if parameter_type")],
    ('C19.c', '_collect_route_arguments'))
variant('t-collector-loop-over-items', ['C19'], 'rsocket/routing/request_router.py',
        "        for parameter in route_signature.parameters:\n            parameter_type = route_signature.parameters[parameter]\n",
        "        for parameter, parameter_type in route_signature.parameters.items():\n", kind='twin')

# C12.o error codes are members of ErrorCode
variant('b-unknown-error-code-kept-as-int', ['C12'], 'rsocket/frame.py',
        "        self.error_code = ErrorCode(unpack_32bit(buffer, offset))\n",
        "        code = unpack_32bit(buffer, offset)\n        self.error_code = ErrorCode(code) if code in ErrorCode._value2member_map_ else code\n",
        ('C12.o', 'ErrorFrame.parse'))
variant('t-error-code-through-a-local', ['C12', 'C02'], 'rsocket/frame.py',
        "        self.error_code = ErrorCode(unpack_32bit(buffer, offset))\n",
        "        code = ErrorCode(unpack_32bit(buffer, offset))\n        self.error_code = code\n", kind='twin')

# C13.j a live stream's id is released only with a terminal frame
variant('b-request-n-rejection-releases-a-live-id', ['C13', 'C10'], H + 'request_stream_requester.py',
        "            return\n\n        self.send_request_n(n)\n",
        "            return\n\n        if n <= 0:\n            self._finish_stream()\n            raise ValueError('Request N must be > 0')\n        self.send_request_n(n)\n",
        ('C13.j', 'RequestStreamRequester.request'))
variant('t-request-n-rejection-cancels-the-stream', ['C13', 'C10', 'C08', 'C09'], H + 'request_stream_requester.py',
        "            return\n\n        self.send_request_n(n)\n",
        "            return\n\n        if n <= 0:\n            self.cancel()\n            raise ValueError('Request N must be > 0')\n        self.send_request_n(n)\n",
        kind='twin')

# C09.e shared into C11: the drain of the close sequence settles each sent-future under the at-most-once guard
variant('b-unsent-frames-failed-without-the-done-guard', ['C11', 'C09'], RB,
        "        if frame.sent_future is not None and not frame.sent_future.done():\n            frame.sent_future.set_exception(RSocketProtocolError(ErrorCode.CONNECTION_ERROR",
        "        if frame.sent_future is not None:\n            frame.sent_future.set_exception(RSocketProtocolError(ErrorCode.CONNECTION_ERROR",
        ('C09.e', '_fail_sent_future'))

# C17.i the provider is iterated once
variant_multi('b-provider-iterated-afresh-on-every-connect', ['C17'], [
    ('rsocket/rsocket_client.py', "        self._transport_provider = transport_provider.__aiter__()\n",
     "        self._transport_provider = transport_provider\n"),
    ('rsocket/rsocket_client.py',
     "        try:\n            return await self._transport_provider.__anext__()\n        except StopAsyncIteration:\n            return\n",
     "        async for transport in self._transport_provider:\n            return transport\n")],
    ('C17.i', '_get_new_transport'))
variant('b-provider-iterator-made-again-per-connect', ['C17'], 'rsocket/rsocket_client.py',
        "            return await self._transport_provider.__anext__()\n",
        "            return await self._transport_provider.__aiter__().__anext__()\n", ('C17.i', '_get_new_transport'))
variant('t-next-transport-through-a-local', ['C17', 'C16'], 'rsocket/rsocket_client.py',
        "            return await self._transport_provider.__anext__()\n",
        "            transport = await self._transport_provider.__anext__()\n            return transport\n", kind='twin')

# module-level struct.pack of literals is folded (seed C02m answered exit 2 before)
variant_multi('b-resume-version-from-a-packed-constant', ['C02'], [
    ('rsocket/frame.py', "class ResumeFrame(Frame):\n", "_PROTOCOL_VERSION = struct.pack('>HH', 1, 0)\n\n\nclass ResumeFrame(Frame):\n"),
    ('rsocket/frame.py', "        middle = struct.pack('>HH', self.major_version, self.minor_version)\n",
     "        middle = _PROTOCOL_VERSION\n")],
    ('C02.a', 'ResumeFrame'))

# C04.m what a message transport queues comes from the frame parser
variant('b-feeder-queues-the-last-parsed-frame-after-the-loop', ['C04'], 'rsocket/transports/quart_websocket.py',
        "                async for frame in self._frame_parser.receive_data(data, 0):\n                    self._incoming_frame_queue.put_nowait(frame)\n",
        "                frame = None\n                async for frame in self._frame_parser.receive_data(data, 0):\n                    pass\n                self._incoming_frame_queue.put_nowait(frame)\n",
        ('C04.m', 'queues frame'))

# C05.i every hand-out of the send queue is written
variant('b-sender-skips-frames-whose-awaitable-was-cancelled', ['C05', 'C01'], RB,
        "                    async with self._get_next_frame_to_send(transport) as frame:\n                        try:\n",
        "                    async with self._get_next_frame_to_send(transport) as frame:\n                        if frame.sent_future is not None and frame.sent_future.cancelled():\n                            continue\n\n                        try:\n",
        ('C05.i', '_sender'))
variant('t-sender-logs-before-the-write', ['C05', 'C01', 'C11'], RB,
        "                    async with self._get_next_frame_to_send(transport) as frame:\n                        try:\n",
        "                    async with self._get_next_frame_to_send(transport) as frame:\n                        logger().debug('%s: writing a frame', self._log_identifier())\n                        try:\n",
        kind='twin')

# C03.e the frame carries the fragment size its builder was given
variant('b-builder-leaves-the-size-out-for-frames-it-believes-to-fit', ['C03'], 'rsocket/frame_builders.py',
        "    request.metadata = payload.metadata\n    request.fragment_size_bytes = fragment_size_bytes\n    return request\n\n\ndef to_request_response_frame",
        "    request.metadata = payload.metadata\n    fits = fragment_size_bytes is None or request.compute_frame_length() + 3 <= fragment_size_bytes\n    request.fragment_size_bytes = None if fits else fragment_size_bytes\n    return request\n\n\ndef to_request_response_frame",
        ('C03.e', 'to_request_stream_frame'))
variant('t-builder-size-through-a-local', ['C03', 'C05'], 'rsocket/frame_builders.py',
        "    request.metadata = payload.metadata\n    request.fragment_size_bytes = fragment_size_bytes\n    return request\n\n\ndef to_request_response_frame",
        "    request.metadata = payload.metadata\n    size = fragment_size_bytes\n    request.fragment_size_bytes = size\n    return request\n\n\ndef to_request_response_frame",
        kind='twin')

# C10.e (F25, fixed 4ebed5f) a request the lease hold queue refuses is released
variant('b-orig-f25-refused-request-stays-registered', ['C10', 'C14'], RB,
        "        try:\n            self._request_queue.put_nowait(frame)\n        except asyncio.QueueFull:\n            # the request is refused, not retained: do not keep its stream registered\n            self.finish_stream(frame.stream_id)\n            raise\n",
        "        self._request_queue.put_nowait(frame)\n", ('C10.e', '_queue_request_frame'))
variant('b-refused-request-released-but-swallowed', ['C10', 'C14'], RB,
        "            self.finish_stream(frame.stream_id)\n            raise\n",
        "            self.finish_stream(frame.stream_id)\n", ('C10.e', '_queue_request_frame'))
variant('t-refused-request-handler-catches-exception', ['C10', 'C14', 'C01'], RB,
        "        except asyncio.QueueFull:\n            # the request is refused",
        "        except Exception:\n            # the request is refused", kind='twin')

# layout: accumulation into a bytearray, bytes() copy (seed C18m answered exit 2 before)
variant_multi('t-composite-accumulates-into-a-bytearray', ['C18', 'C19'], [
    ('rsocket/extensions/composite_metadata.py', "    def serialize(self) -> bytes:\n        serialized = b''\n\n        for item in self.items:",
     "    def serialize(self) -> bytes:\n        serialized = bytearray()\n\n        for item in self.items:"),
    ('rsocket/extensions/composite_metadata.py', "            serialized += item_serialized\n\n        return serialized\n",
     "            serialized += item_serialized\n\n        return bytes(serialized)\n")], kind='twin')
variant('b-composite-skips-entries-with-an-empty-body', ['C18'], 'rsocket/extensions/composite_metadata.py',
        "            item_metadata = item.serialize()\n\n            item_serialized = b''\n",
        "            item_metadata = item.serialize()\n            if not item_metadata:\n                continue\n\n            item_serialized = b''\n",
        ('C18.d', 'CompositeMetadata.serialize'))

# C01.o shared into C09: the subscription kept is the current one
variant('b-default-subscriber-keeps-its-first-subscription', ['C09', 'C01'], 'reactivestreams/subscriber.py',
        "    def on_subscribe(self, subscription: Subscription):\n        self.subscription = subscription\n",
        "    def on_subscribe(self, subscription: Subscription):\n        if self.subscription is None:\n            self.subscription = subscription\n",
        ('C01.o', 'DefaultSubscriber.on_subscribe'))

# C20.p the adapters pass the delegate's failures on
variant('b-rx-adapter-logs-a-rejecting-on-setup', ['C20', 'C16'], 'rsocket/rx_support/rx_handler_adapter.py',
        "        await self.delegate.on_setup(data_encoding, metadata_encoding, payload)\n",
        "        try:\n            await self.delegate.on_setup(data_encoding, metadata_encoding, payload)\n        except Exception:\n            pass\n",
        ('C20.p', 'RxHandlerAdapter.on_setup'))
variant_multi('t-reactivex-adapter-notifies-through-a-forwarding-helper', ['C20', 'C16'], [
    ('rsocket/reactivex/reactivex_handler_adapter.py',
     "    async def on_setup(self, data_encoding: bytes, metadata_encoding: bytes, payload: Payload):\n        await self.delegate.on_setup(data_encoding, metadata_encoding, payload)\n",
     "    async def _notify(self, callback, *args):\n        await callback(*args)\n\n    async def on_setup(self, data_encoding: bytes, metadata_encoding: bytes, payload: Payload):\n        await self._notify(self.delegate.on_setup, data_encoding, metadata_encoding, payload)\n")],
    kind='twin')

# C02.j decoders reject no field value
variant('b-lease-parser-rejects-a-lease-that-grants-nothing', ['C02', 'C14'], 'rsocket/frame.py',
        "        self.number_of_requests = number_of_requests & MASK_31_BITS\n",
        "        self.number_of_requests = number_of_requests & MASK_31_BITS\n        if self.time_to_live == 0 or self.number_of_requests == 0:\n            raise ParseError('Invalid lease')\n",
        ('C02.j', 'LeaseFrame.parse'))
variant('t-lease-parser-checks-the-buffer-length', ['C02', 'C14', 'C12'], 'rsocket/frame.py',
        "        time_to_live, number_of_requests = struct.unpack_from('>II', buffer, offset)\n",
        "        if len(buffer) < offset + 8:\n            raise ParseError('Lease frame too short')\n        time_to_live, number_of_requests = struct.unpack_from('>II', buffer, offset)\n",
        kind='twin')

# C06.a every credit counts, whatever its value
variant('b-responder-drops-a-request-n-of-the-maximum', ['C06'], H + 'request_stream_responder.py',
        "        elif isinstance(frame, RequestNFrame):\n            self.subscriber.subscription.request(frame.request_n)\n",
        "        elif isinstance(frame, RequestNFrame):\n            if frame.request_n in range(1, MAX_REQUEST_N):\n                self.subscriber.subscription.request(frame.request_n)\n",
        ('C06.a', 'RequestStreamResponder.frame_received/RequestNFrame'))

# C12.p / C11.q the exception hierarchy agrees with the receive loop's branches
variant('b-fragment-type-mismatch-becomes-a-transport-error', ['C12'], 'rsocket/exceptions.py',
        "class RSocketFrameFragmentDifferentType(RSocketError):\n    pass\n\n\nclass RSocketTransportError(RSocketError):\n    pass\n",
        "class RSocketTransportError(RSocketError):\n    pass\n\n\nclass RSocketFrameFragmentDifferentType(RSocketTransportError):\n    pass\n",
        ('C12.p', 'RSocketFrameFragmentDifferentType'))
variant_multi('b-connection-reset-raised-as-transport-closed', ['C11'], [
    ('rsocket/helpers.py', "from rsocket.exceptions import RSocketTransportError\n",
     "from rsocket.exceptions import RSocketTransportError, RSocketTransportClosed\n"),
    ('rsocket/helpers.py', "    try:\n        yield\n    except Exception as exception:\n        raise RSocketTransportError from exception\n",
     "    try:\n        yield\n    except ConnectionResetError as exception:\n        raise RSocketTransportClosed from exception\n    except Exception as exception:\n        raise RSocketTransportError from exception\n")],
    ('C11.q', 'wrap_transport_exception'))
variant('t-transport-closed-is-a-transport-error', ['C11', 'C12'], 'rsocket/exceptions.py',
        "class RSocketTransportClosed(RSocketError):", "class RSocketTransportClosed(RSocketTransportError):", kind='twin')

# since F26 the completing element may be delivered as on_next + on_complete: the requester is silent afterwards
variant('t-completing-element-delivered-as-two-signals', ['C08', 'C01', 'C07', 'C10'], H + 'request_stream_requester.py',
        "                self._subscriber.on_next(payload_from_frame(frame),\n                                         is_complete=frame.flags_complete)\n            elif frame.flags_complete:\n                self._subscriber.on_complete()\n\n            if frame.flags_complete:\n                self._finish_stream()",
        "                self._subscriber.on_next(payload_from_frame(frame))\n\n            if frame.flags_complete:\n                self._subscriber.on_complete()\n                self._finish_stream()",
        kind='twin')

# C17.j a transport's close() keeps the cancellation of its feeder task to itself
variant('b-aiohttp-feeder-re-raises-its-cancellation', ['C17', 'C11'], 'rsocket/transports/aiohttp_websocket.py',
        "            logger().debug('Asyncio task canceled: incoming_data_listener')\n        except Exception:\n            self._incoming_frame_queue.put_nowait(RSocketTransportError())\n        finally:\n            # the receiver",
        "            logger().debug('Asyncio task canceled: incoming_data_listener')\n            raise\n        except Exception:\n            self._incoming_frame_queue.put_nowait(RSocketTransportError())\n        finally:\n            # the receiver",
        ('C17.j', 'TransportAioHttpClient.close'))
variant_multi('t-aiohttp-feeder-re-raises-and-close-contains-it', ['C17', 'C11'], [
    ('rsocket/transports/aiohttp_websocket.py',
     "            logger().debug('Asyncio task canceled: incoming_data_listener')\n        except Exception:\n            self._incoming_frame_queue.put_nowait(RSocketTransportError())\n        finally:\n            # the receiver",
     "            logger().debug('Asyncio task canceled: incoming_data_listener')\n            raise\n        except Exception:\n            self._incoming_frame_queue.put_nowait(RSocketTransportError())\n        finally:\n            # the receiver"),
    ('rsocket/transports/aiohttp_websocket.py',
     "        self._message_handler.cancel()\n        await self._message_handler\n\n\nclass TransportAioHttpWebsocket",
     "        self._message_handler.cancel()\n        try:\n            await self._message_handler\n        except asyncio.CancelledError:\n            pass\n\n\nclass TransportAioHttpWebsocket")],
    kind='twin')

# C09.a shared into C10: cancel() always cancels
variant('b-channel-cancel-ignored-before-setup', ['C10', 'C09'], H + 'request_cahnnel_common.py',
        "    def cancel(self):\n        if self._received_complete:",
        "    def cancel(self):\n        if self.subscriber is None:\n            return\n        if self._received_complete:",
        ('C09.a', 'RequestChannelRequester.cancel'))

# C08.l (F26, fixed ade6b24) an ended request-stream is silent
variant('b-orig-f26-request-n-written-after-the-end', ['C08'], H + 'request_stream_requester.py',
        "    def request(self, n: int):\n        if self._terminated:\n            return\n\n        if not self._requested:",
        "    def request(self, n: int):\n        if not self._requested:", ('C08.l', 'request() and cancel() after it'))
variant('b-requester-notes-the-end-after-telling-the-subscriber', ['C08'], H + 'request_stream_requester.py',
        "            if frame.flags_complete:\n                self._terminated = True  # before the subscriber is told: it may ask for more in on_next\n\n            if frame.flags_next:",
        "            if frame.flags_next:", ('C08.l', 'PayloadFrame[complete'),
        note='the flag is then set nowhere on the PAYLOAD paths')
variant_multi('b-requester-notes-the-end-when-it-releases-the-stream', ['C08'], [
    (H + 'request_stream_requester.py',
     "            if frame.flags_complete:\n                self._terminated = True  # before the subscriber is told: it may ask for more in on_next\n\n            if frame.flags_next:",
     "            if frame.flags_next:"),
    (H + 'request_stream_requester.py',
     "            if frame.flags_complete:\n                self._finish_stream()\n        elif isinstance(frame, ErrorFrame):",
     "            if frame.flags_complete:\n                self._terminated = True\n                self._finish_stream()\n        elif isinstance(frame, ErrorFrame):")],
    ('C08.l', 'PayloadFrame[complete'))
variant('t-requester-end-flag-renamed', ['C08', 'C07', 'C09', 'C10', 'C13', 'C01'], H + 'request_stream_requester.py',
        "_terminated", "_ended", kind='twin', count=7)

# C08.l (F27, fixed 4e7e05a) an ended channel is silent
variant('b-orig-f27-channel-request-n-written-after-the-end', ['C08'], H + 'request_cahnnel_common.py',
        "    def request(self, n: int):\n        if self._received_complete:\n            return  # the peer's direction has ended: there is nothing left to ask for\n\n        self.send_request_n(n)\n",
        "    def request(self, n: int):\n        self.send_request_n(n)\n", ('C08.l', 'request() and cancel() after it'))
variant('b-channel-notes-the-peers-end-after-telling-the-subscriber', ['C08'], H + 'request_cahnnel_common.py',
        "            if frame.flags_complete:\n                self._received_complete = True  # before the subscriber is told: it may ask for more in on_next\n\n            if frame.flags_next:",
        "            if frame.flags_next:", ('C08.l', 'PayloadFrame[complete'))

# C02.a the reader reads a metadata section where the protocol has one (third mutation retest)
variant('b-lease-parser-forgets-its-metadata', ['C02'], 'rsocket/frame.py',
        "        offset += self.parse_metadata(buffer, offset + 8)\n", "        pass\n",
        ('C02.a', 'LeaseFrame / layout'))
variant('b-metadata-push-parser-forgets-its-metadata', ['C02'], 'rsocket/frame.py',
        "        ParseHelper.parse_header(self, buffer, offset)\n        offset += HEADER_LENGTH\n        offset += self.parse_metadata(buffer, offset)\n\n\nclass ResumeFrame",
        "        ParseHelper.parse_header(self, buffer, offset)\n        offset += HEADER_LENGTH\n\n\nclass ResumeFrame",
        ('C02.a', 'MetadataPushFrame / layout'))
variant('b-request-payload-parser-forgets-the-metadata', ['C02'], 'rsocket/frame.py',
        "    def _parse_payload(self, buffer: bytes, offset: int):\n        offset += self.parse_metadata(buffer, offset)\n",
        "    def _parse_payload(self, buffer: bytes, offset: int):\n",
        ('C02.a', 'layout'))

# C04.n the parser's buffer is never emptied
variant('b-parser-clears-its-buffer-when-the-loop-runs-out', ['C04'], 'rsocket/frame_parser.py',
        "            self._buffer = self._buffer[length + frame_length_byte_count:]\n            total -= length + frame_length_byte_count\n",
        "            self._buffer = self._buffer[length + frame_length_byte_count:]\n            total -= length + frame_length_byte_count\n        else:\n            self._buffer.clear()\n",
        ('C04.n', 'empties the buffer'))
variant('t-parser-clears-its-buffer-when-everything-was-consumed', ['C04', 'C12'], 'rsocket/frame_parser.py',
        "            self._buffer = self._buffer[length + frame_length_byte_count:]\n            total -= length + frame_length_byte_count\n",
        "            self._buffer = self._buffer[length + frame_length_byte_count:]\n            total -= length + frame_length_byte_count\n            if total == 0:\n                self._buffer.clear()\n",
        kind='twin')

# C12.q decoded text can be encoded again; C12.g / C12.l follow text helpers
variant('b-error-text-decoded-with-surrogateescape', ['C12'], 'rsocket/frame.py',
        "    return RuntimeError(frame.data.decode('utf-8'))\n",
        "    return RuntimeError(frame.data.decode('utf-8', errors='surrogateescape'))\n",
        ('C12.q', 'decode(errors='))
variant_multi('t-error-text-through-a-helper', ['C12', 'C13', 'C16', 'C07'], [
    ('rsocket/frame.py', "def error_frame_to_exception(frame: ErrorFrame) -> Exception:\n",
     "def _error_text(frame: ErrorFrame) -> str:\n    return frame.data.decode('utf-8')\n\n\ndef error_frame_to_exception(frame: ErrorFrame) -> Exception:\n"),
    ('rsocket/frame.py', "        return RSocketProtocolError(frame.error_code, data=frame.data.decode())\n\n    return RuntimeError(frame.data.decode('utf-8'))\n",
     "        return RSocketProtocolError(frame.error_code, data=_error_text(frame))\n\n    return RuntimeError(_error_text(frame))\n")],
    kind='twin')

# C01.o no-op default call-backs must take what they are given
variant_multi('b-default-on-next-call-back-takes-one-argument', ['C01', 'C10'], [
    (DS, "        self._on_next = on_next\n", "        self._on_next = on_next or (lambda value: None)\n"),
    (DS, "        if self._on_next is not None:\n            self._on_next(value, is_complete)", "        self._on_next(value, is_complete)")],
    ('C01.o', 'DefaultSubscriber.on_next'))
variant_multi('t-default-on-next-call-back-of-the-right-arity', ['C01', 'C10', 'C09'], [
    (DS, "        self._on_next = on_next\n", "        self._on_next = on_next or (lambda value, is_complete=False: None)\n"),
    (DS, "        if self._on_next is not None:\n            self._on_next(value, is_complete)", "        self._on_next(value, is_complete)")],
    kind='twin')

# C11.r only the close sequence delivers on_close
variant('b-connection-error-call-back-also-closes', ['C11'], 'rsocket/request_handler.py',
        "    async def on_connection_error(self, rsocket, exception: Exception):\n        pass\n",
        "    async def on_connection_error(self, rsocket, exception: Exception):\n        await self.on_close(rsocket, exception)\n",
        ('C11.r', 'on_connection_error'))

# C08.m (F28, stream requester fixed 965a694) nothing is written before the request frame
variant('b-orig-f28-request-n-written-before-the-request-frame', ['C08', 'C06'], H + 'request_stream_requester.py',
        "        if not self._requested:\n            # asked for from on_subscribe: the request frame, which has not been written yet, carries this credit\n            if n > 0:\n                self.initial_request_n(min(self._initial_request_n + n, MAX_REQUEST_N))\n\n            return\n\n",
        "", ('C08.m', 'RequestStreamRequester.request'))
variant('b-orig-f28-cancel-written-for-an-unopened-stream', ['C08'], H + 'request_stream_requester.py',
        "        if self._requested:\n            self.send_cancel()  # a stream the peer has never seen is not cancelled, only released\n",
        "        self.send_cancel()\n", ('C08.m', 'RequestStreamRequester.cancel'))
variant('b-early-credit-dropped-instead-of-carried', ['C06'], H + 'request_stream_requester.py',
        "            if n > 0:\n                self.initial_request_n(min(self._initial_request_n + n, MAX_REQUEST_N))\n\n            return\n",
        "            return\n", ('C08.m', 'RequestStreamRequester.request'))

# C08.m (F28, channel requester fixed a34a39e)
variant('b-orig-f28-channel-cancel-written-for-an-unopened-channel', ['C08'], H + 'request_channel_requester.py',
        "    def cancel(self):\n        if not self._requested:", "    def cancel(self):\n        if False and not self._requested:",
        ('C08.m', 'RequestChannelRequester.cancel'))
variant('b-channel-early-credit-dropped', ['C08', 'C06'], H + 'request_channel_requester.py',
        "            if n > 0:\n                self.initial_request_n(min(self._initial_request_n + n, MAX_REQUEST_N))\n\n            return\n\n        super().request(n)",
        "            return\n\n        super().request(n)", ('C08.m', 'RequestChannelRequester.request'))

# round 15 --------------------------------------------------------------------------------------------------------
# C16.a / C16.c no truncation of a floating-point period (seed C16o)
variant('b-milliseconds-truncated-from-float', ['C16', 'C14'], 'rsocket/datetime_helpers.py',
        "round(period.total_seconds() * 1000)", "int(period.total_seconds() * 1000)", ('C16.a', 'to_milliseconds'))
variant('t-milliseconds-int-of-round', ['C16', 'C14', 'C15'], 'rsocket/datetime_helpers.py',
        "round(period.total_seconds() * 1000)", "int(round(period.total_seconds() * 1000))", kind='twin')
variant_multi('b-setup-periods-inlined-with-int', ['C16'], [
    ('rsocket/frame_builders.py', "    setup.keep_alive_milliseconds = to_milliseconds(keep_alive_period)\n",
     "    setup.keep_alive_milliseconds = int(keep_alive_period.total_seconds() * 1000)\n"),
    ('rsocket/frame_builders.py', "    setup.max_lifetime_milliseconds = to_milliseconds(max_lifetime_period)\n",
     "    setup.max_lifetime_milliseconds = int(max_lifetime_period.total_seconds() * 1000)\n")],
    expect=('C16.c', 'keep_alive_milliseconds'))
variant_multi('t-setup-periods-inlined-with-round', ['C16', 'C15'], [
    ('rsocket/frame_builders.py', "    setup.keep_alive_milliseconds = to_milliseconds(keep_alive_period)\n",
     "    setup.keep_alive_milliseconds = round(keep_alive_period.total_seconds() * 1000)\n"),
    ('rsocket/frame_builders.py', "    setup.max_lifetime_milliseconds = to_milliseconds(max_lifetime_period)\n",
     "    setup.max_lifetime_milliseconds = round(max_lifetime_period.total_seconds() * 1000)\n")],
    kind='twin')

# C17.b / C11.e _close_transport exits without close() only when no transport was obtained (seed C17o)
variant('b-close-transport-skipped-when-peer-silent', ['C17', 'C11'], 'rsocket/rsocket_base.py',
        "    async def _close_transport(self):\n",
        "    async def _close_transport(self):\n        if not self.is_server_alive():\n            return\n\n",
        ('', 'no exit without close()'))
variant('b-close-transport-skipped-when-closing', ['C17', 'C11'], 'rsocket/rsocket_base.py',
        "            if transport is not None:\n                try:\n                    await transport.close()",
        "            if transport is not None and not self._is_closing:\n                try:\n                    await transport.close()",
        ('', '_close_transport'))

# C11.c dispose() from the state the synthetic ERROR leaves (seed C11o)
variant_multi('b-channel-error-marks-sent-dispose-skips', ['C11'], [
    (H + 'request_cahnnel_common.py',
     "            self.remote_subscriber.on_error(error_frame_to_exception(frame))\n            self.mark_completed_and_finish(received=True)\n",
     "            self.remote_subscriber.on_error(error_frame_to_exception(frame))\n            self.mark_completed_and_finish(received=True, sent=True)\n"),
    (H + 'request_cahnnel_common.py', "    def dispose(self):\n",
     "    def dispose(self):\n        if self._sent_complete:\n            return\n\n")],
    expect=('C11.c', 'synthetic ERROR then dispose()'))
variant('b-channel-dispose-skips-after-peer-ended', ['C11'], H + 'request_cahnnel_common.py',
        "    def dispose(self):\n", "    def dispose(self):\n        if self._received_complete:\n            return\n\n",
        ('C11.c', 'synthetic ERROR then dispose()'))

# C08.l shared into C13 (seed C13o)
variant('b-stream-error-leaves-requester-live', ['C13', 'C08', 'C17'], H + 'request_stream_requester.py',
        "        elif isinstance(frame, ErrorFrame):\n            self._terminated = True\n",
        "        elif isinstance(frame, ErrorFrame):\n", ('C08.l', 'ErrorFrame'))
