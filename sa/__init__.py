"""Static analysis engine for rsocket-py (ast only; never imports or runs the library)."""


class AnalysisError(Exception):
    """The analyser cannot understand the code it is looking at (exit 2, never a verdict)."""
