"""E9: every table that is not discovered from the code lives here, one line of reason per entry.
These are the protocol-side oracles (RSocket 1.0) the code is compared against."""

# (interaction, role) -> frame classes the role may emit on a stream it takes part in (RSocket 1.0, "Stream
# Sequences and Lifetimes").  The request frame itself is included for the requester.
ROLE_EMIT = {
    ('response', 'requester'): {'RequestResponseFrame', 'CancelFrame'},
    ('response', 'responder'): {'PayloadFrame', 'ErrorFrame'},
    ('stream', 'requester'): {'RequestStreamFrame', 'RequestNFrame', 'CancelFrame'},
    ('stream', 'responder'): {'PayloadFrame', 'ErrorFrame'},
    ('channel', 'requester'): {'RequestChannelFrame', 'PayloadFrame', 'RequestNFrame', 'CancelFrame', 'ErrorFrame'},
    ('channel', 'responder'): {'PayloadFrame', 'RequestNFrame', 'CancelFrame', 'ErrorFrame'},
}

# request frame class -> interaction name
REQUEST_FRAME_INTERACTION = {
    'RequestResponseFrame': 'response',
    'RequestStreamFrame': 'stream',
    'RequestChannelFrame': 'channel',
    'RequestFireAndForgetFrame': 'fnf',
}

# What a RECEIVED frame means for the receiver's stream state.
#   'whole' : the whole stream is terminated (no state may survive, nothing may be emitted afterwards)
#   'recv'  : the direction peer -> us is closed (channel only)
#   'send'  : the direction us -> peer is closed by the peer (channel only: a responder's CANCEL)
# key: (interaction, role, frame class, complete flag or None when irrelevant)
RECV_TERMINAL = {
    ('response', 'requester', 'PayloadFrame', None): 'whole',  # the single response; complete is implied
    ('response', 'requester', 'ErrorFrame', None): 'whole',
    ('response', 'responder', 'CancelFrame', None): 'whole',
    ('stream', 'requester', 'PayloadFrame', True): 'whole',
    ('stream', 'requester', 'ErrorFrame', None): 'whole',
    ('stream', 'responder', 'CancelFrame', None): 'whole',
    ('channel', 'requester', 'PayloadFrame', True): 'recv',
    ('channel', 'requester', 'ErrorFrame', None): 'whole',  # ERROR terminates both directions
    ('channel', 'requester', 'CancelFrame', None): 'send',  # responder's CANCEL stops the requester's payloads only
    ('channel', 'responder', 'PayloadFrame', True): 'recv',
    ('channel', 'responder', 'RequestChannelFrame', True): 'recv',  # requester has nothing more to send
    ('channel', 'responder', 'ErrorFrame', None): 'whole',
    ('channel', 'responder', 'CancelFrame', None): 'whole',  # requester's CANCEL terminates the channel
}

# What an EMITTED frame means for the emitter's stream state.
# key: (interaction, role, frame class, complete flag or None)
EMIT_TERMINAL = {
    ('response', 'requester', 'CancelFrame', None): 'whole',
    ('response', 'responder', 'PayloadFrame', None): 'whole',
    ('response', 'responder', 'ErrorFrame', None): 'whole',
    ('stream', 'requester', 'CancelFrame', None): 'whole',
    ('stream', 'responder', 'PayloadFrame', True): 'whole',
    ('stream', 'responder', 'ErrorFrame', None): 'whole',
    ('channel', 'requester', 'PayloadFrame', True): 'send',
    ('channel', 'requester', 'CancelFrame', None): 'whole',  # requester's CANCEL terminates the channel
    ('channel', 'requester', 'ErrorFrame', None): 'whole',
    ('channel', 'requester', 'RequestChannelFrame', True): 'send',
    ('channel', 'responder', 'PayloadFrame', True): 'send',
    ('channel', 'responder', 'CancelFrame', None): 'recv',  # responder's CANCEL: "stop sending to me"
    ('channel', 'responder', 'ErrorFrame', None): 'whole',
}

# RSocket 1.0 frame layouts: class -> ordered wire items after the 6-byte header (width in bytes or symbolic)
#   ('u16', field) ('u32', field) ('u31', field) ('u63', field) ('str8', field) ('len16+bytes', lenfield, field)
#   ('cond', flag, [...])   'META' = optional 24-bit length + metadata   'DATA' = rest
FRAME_LAYOUT = {
    'SetupFrame': [('u16', 'major_version'), ('u16', 'minor_version'), ('u32', 'keep_alive_milliseconds'),
                   ('u32', 'max_lifetime_milliseconds'),
                   ('cond', 'flags_resume', [('u16', 'token_length'), ('bytes', 'resume_identification_token')]),
                   ('str8', 'metadata_encoding'), ('str8', 'data_encoding'), 'META', 'DATA'],
    'LeaseFrame': [('u31', 'time_to_live'), ('u31', 'number_of_requests'), 'META_ONLY'],
    'KeepAliveFrame': [('u63', 'last_received_position'), 'DATA'],
    'RequestResponseFrame': ['META', 'DATA'],
    'RequestFireAndForgetFrame': ['META', 'DATA'],
    'RequestStreamFrame': [('u32', 'initial_request_n'), 'META', 'DATA'],
    'RequestChannelFrame': [('u32', 'initial_request_n'), 'META', 'DATA'],
    'RequestNFrame': [('u32', 'request_n')],
    'CancelFrame': [],
    'PayloadFrame': ['META', 'DATA'],
    'ErrorFrame': [('u32', 'error_code'), 'DATA'],
    'MetadataPushFrame': ['META_ONLY'],
    'ResumeFrame': [('u16', 'major_version'), ('u16', 'minor_version'), ('u16', 'token_length'),
                    ('bytes', 'resume_identification_token'), ('u63', 'last_server_position'),
                    ('u63', 'first_client_position')],
    'ResumeOKFrame': [('u63', 'last_received_client_position')],
}

# RSocket 1.0 frame type ids
FRAME_TYPE_IDS = {'SETUP': 1, 'LEASE': 2, 'KEEPALIVE': 3, 'REQUEST_RESPONSE': 4, 'REQUEST_FNF': 5,
                  'REQUEST_STREAM': 6, 'REQUEST_CHANNEL': 7, 'REQUEST_N': 8, 'CANCEL': 9, 'PAYLOAD': 10,
                  'ERROR': 11, 'METADATA_PUSH': 12, 'RESUME': 13, 'RESUME_OK': 14, 'EXT': 0x3F}

# flag bits (within the 10-bit flags field) and the frame classes that own them
FLAG_BITS = {'ignore': 0x200, 'metadata': 0x100, 'follows': 0x80, 'resume': 0x80, 'respond': 0x80, 'lease': 0x40,
             'complete': 0x40, 'next': 0x20}
FRAME_FLAGS = {
    'SetupFrame': {'flags_resume': 0x80, 'flags_lease': 0x40},
    'KeepAliveFrame': {'flags_respond': 0x80},
    'RequestResponseFrame': {'flags_follows': 0x80},
    'RequestFireAndForgetFrame': {'flags_follows': 0x80},
    'RequestStreamFrame': {'flags_follows': 0x80},
    'RequestChannelFrame': {'flags_follows': 0x80, 'flags_complete': 0x40},
    'PayloadFrame': {'flags_follows': 0x80, 'flags_complete': 0x40, 'flags_next': 0x20},
}

# RSocket 1.0 error codes
ERROR_CODES = {'INVALID_SETUP': 0x001, 'UNSUPPORTED_SETUP': 0x002, 'REJECTED_SETUP': 0x003, 'REJECTED_RESUME': 0x004,
               'CONNECTION_ERROR': 0x101, 'CONNECTION_ERROR_NO_RETRY': 0x102, 'APPLICATION_ERROR': 0x201,
               'REJECTED': 0x202, 'CANCELED': 0x203, 'INVALID': 0x204}

# What the receive loop must do with a connection-level frame or a new request (protocol: "Frame types" and the
# per-interaction sections).  ('app', application method, responder class created, payload data taken from frame.data)
# or ('method', the method whose behaviour the named property's rules decide).
DISPATCH_ROWS = {
    'RequestResponseFrame': ('app', 'request_response', 'RequestResponseResponder', True),
    'RequestStreamFrame': ('app', 'request_stream', 'RequestStreamResponder', True),
    'RequestChannelFrame': ('app', 'request_channel', 'RequestChannelResponder', True),
    'RequestFireAndForgetFrame': ('app', 'request_fire_and_forget', None, True),
    'MetadataPushFrame': ('app', 'on_metadata_push', None, False),
    'ErrorFrame': ('app', 'on_error', None, True),
    'SetupFrame': ('method', 'handle_setup'),
    'ResumeFrame': ('method', 'handle_resume'),
    'LeaseFrame': ('method', 'handle_lease'),
    'KeepAliveFrame': ('method', 'handle_keep_alive'),
}
